package main

import (
	"fmt"
	"regexp"
	"strings"
	"text/template/parse"

	"golang.org/x/tools/go/ssa"
)

// Rules for the Bison export (C30).
func ruleBISON(c *Ctx) {
	files, err := c.templates()
	if err != nil {
		c.Lost("CONSTAGREE(bison-kind)", "gen/templates", "%v", err)
		return
	}
	f := files["bison.go.tmpl"]
	if f == nil {
		c.Lost("CONSTAGREE(bison-kind)", "bison.go.tmpl", "template not found")
		return
	}
	la, ok := c.enumConst("syntax", "Lookahead")
	if !ok {
		c.Lost("CONSTAGREE(bison-kind)", "syntax.Lookahead", "constant not found")
		return
	}
	kindRe := regexp.MustCompile(`\beq\s+(\S+\.Kind)\s+(\d+)`)
	// --- literal kind constants and the %empty shortcut
	{
		const rule = "CONSTAGREE(bison-kind)"
		n, nEmpty := 0, 0
		for _, tn := range sortedTreeKeys(f.Trees) {
			walkTmpl(f.Trees[tn].Root, nil, func(nd parse.Node, gs []tguard) {
				switch x := nd.(type) {
				case *parse.IfNode:
					for _, m := range kindRe.FindAllStringSubmatch(x.Pipe.String(), -1) {
						n++
						key := fmt.Sprintf("bison.go.tmpl:eq %s %s#%d", m[1], m[2], n)
						if m[2] == fmt.Sprint(la) {
							c.addT(rule, key, tmplPos(f, nd), OK, "literal %s is syntax.Lookahead (the only kind the export special-cases: lookahead nonterminals have an empty rule)", m[2])
						} else {
							c.addT(rule, key, tmplPos(f, nd), Violation, "literal kind %s compared with %s is not syntax.Lookahead (%d)", m[2], m[1], la)
						}
					}
				case *parse.TextNode:
					if strings.Contains(string(x.Text), "%empty") {
						nEmpty++
						key := fmt.Sprintf("bison.go.tmpl:%%empty#%d", nEmpty)
						ok := false
						for _, g := range gs {
							if g.Pol && g.Kind == "if" {
								// the whole guard is the kind test: a disjunction ("or (eq …) (not $rule.RHS)")
								// would print the bare %empty for other rules too
								whole := regexp.MustCompile(`^\s*eq\s+(\S+\.Kind)\s+(\d+)\s*$`).FindStringSubmatch(g.Pipe)
								if whole != nil && whole[2] == fmt.Sprint(la) && strings.Contains(whole[1], "rule.Value") {
									ok = true
								}
							}
						}
						if ok {
							c.addT(rule, key, tmplPos(f, nd), OK, "the literal %%empty replaces the rule text only for lookahead rules; every other rule is printed by ExprString (which keeps %%prec)")
						} else {
							c.addT(rule, key, tmplPos(f, nd), Violation, "the template prints a bare %%empty under {%s}: any rule whose right-hand side is empty but which carries %%prec or other annotations loses them in the export while the tables were built with them", guardsString(gs))
						}
					}
				}
			})
		}
		if n < 2 || nEmpty < 1 {
			c.addT(rule, "count:", "", CountDropped, "kind literals=%d (>=2), %%empty shortcuts=%d (>=1)", n, nEmpty)
		}
	}
	// --- names and sources of the exported lists
	{
		const rule = "LOCKSTEP(bison-export)"
		var lhs, rulesSrc, precSrc, ruleText bool
		var lhsSeen []string
		for _, tn := range sortedTreeKeys(f.Trees) {
			walkTmpl(f.Trees[tn].Root, nil, func(nd parse.Node, gs []tguard) {
				switch x := nd.(type) {
				case *parse.RangeNode:
					p := x.Pipe.String()
					if p == ".Parser.RulesByNonterm" {
						rulesSrc = true
					}
					if p == ".Parser.Prec" {
						precSrc = true
					}
				case *parse.ActionNode:
					s := x.String()
					if strings.Contains(s, "Nonterm") && strings.Contains(s, "Name") && !strings.Contains(s, "index") {
						lhsSeen = append(lhsSeen, s)
						if s == "{{.Nonterm.Name}}" {
							lhs = true
						}
					}
					if strings.Contains(s, "$.ExprString $rule.Value") {
						ruleText = true
					}
				}
			})
		}
		check := func(key string, ok bool, good, bad string) {
			if ok {
				c.addT(rule, "bison.go.tmpl:"+key, "gen/templates/bison.go.tmpl", OK, "%s", good)
			} else {
				c.addT(rule, "bison.go.tmpl:"+key, "gen/templates/bison.go.tmpl", Violation, "%s", bad)
			}
		}
		check("rules", rulesSrc, "rules are exported by ranging over .Parser.RulesByNonterm (the rule list the tables were built from, in order)", "the export must range over .Parser.RulesByNonterm")
		check("prec", precSrc, "precedence declarations are exported by ranging over .Parser.Prec (the slice handed to lalr.Grammar.Precedence)", "the export must range over .Parser.Prec")
		check("lhs", lhs, "left-hand sides are printed as {{.Nonterm.Name}} (the identity: distinct nonterminals keep distinct names)", fmt.Sprintf("the left-hand side must be printed as the nonterminal's own name {{.Nonterm.Name}}; found %v (a rewritten name can make two nonterminals share one Bison symbol)", lhsSeen))
		check("rhs", ruleText, "right-hand sides are printed by $.ExprString $rule.Value", "right-hand sides must be printed by $.ExprString $rule.Value")
		// Go side: parser.Prec is the slice given to lalr
		okPrec := false
		if g := c.SSAFunc("compiler", "generateTables"); g != nil {
			for _, b := range g.Blocks {
				for _, ins := range b.Instrs {
					if st, ok := ins.(*ssa.Store); ok && strings.HasSuffix(vpath(st.Addr), ".Precedence") && strings.HasSuffix(vpath(st.Val), ".Prec") {
						okPrec = true
					}
				}
			}
		}
		check("prec-source", okPrec, "lalr.Grammar.Precedence is assigned from grammar.Parser.Prec in generateTables", "lalr.Grammar.Precedence must be the very slice exported as Parser.Prec")
		// ExprString: references print the symbol's own text
		okRef := false
		if g := c.SSAFunc("grammar", "(*Grammar).ExprString"); g != nil {
			for _, b := range g.Blocks {
				for _, ins := range b.Instrs {
					if r, ok := ins.(*ssa.Return); ok && len(r.Results) == 1 && strings.HasPrefix(vpath(r.Results[0]), "syntax.Expr.String(e") {
						if hasCond(governing(b), func(p string, pol bool) bool {
							return pol && strings.HasSuffix(p, fmt.Sprintf("== %d)", mustEnum(c, "syntax", "Reference")))
						}) {
							okRef = true
						}
					}
				}
			}
		}
		check("reference", okRef, "ExprString prints a symbol reference with the symbol's own text (Expr.String)", "ExprString must print references with the symbol's own text; a rewritten name can merge two symbols in the export")
	}
}

func mustEnum(c *Ctx, pkg, name string) int64 {
	v, _ := c.enumConst(pkg, name)
	return v
}
