package main

import (
	"fmt"
	"go/token"
	"go/types"

	"golang.org/x/tools/go/ssa"
)

// CYCLE(memo): a self-recursive function that marks its key "in progress" in a memo map before
// descending (memo[k] = marker; ...recursive call...; memo[k] = result) terminates on cyclic
// inputs only if a hit of that key — marker included — never reaches the recursive call: no
// self-call may be reachable from the ok == true edge of the lookup of the same key.
func ruleMEMOCYCLE(c *Ctx, pkgs ...string) {
	const rule = "CYCLE(memo)"
	n := 0
	for _, rel := range pkgs {
		for _, f := range c.SrcFuncs(rel) {
			// self calls
			var selfCalls []*ssa.Call
			for _, b := range f.Blocks {
				for _, ins := range b.Instrs {
					if call, ok := ins.(*ssa.Call); ok && call.Call.StaticCallee() == f {
						selfCalls = append(selfCalls, call)
					}
				}
			}
			if len(selfCalls) == 0 {
				continue
			}
			for _, b := range f.Blocks {
				for _, ins := range b.Instrs {
					lk, ok := ins.(*ssa.Lookup)
					if !ok || !lk.CommaOk {
						continue
					}
					if _, isMap := lk.X.Type().Underlying().(*types.Map); !isMap {
						continue
					}
					// memo idiom: the same map is updated under the same key somewhere in f
					var marksAt []*ssa.MapUpdate
					for _, b2 := range f.Blocks {
						for _, in2 := range b2.Instrs {
							mu, ok := in2.(*ssa.MapUpdate)
							if !ok || vpath(mu.Map) != vpath(lk.X) || vpath(mu.Key) != vpath(lk.Index) {
								continue
							}
							marksAt = append(marksAt, mu)
						}
					}
					if len(marksAt) == 0 {
						continue
					}
					var okv *ssa.Extract
					for _, ref := range *lk.Referrers() {
						if e, isE := ref.(*ssa.Extract); isE && e.Index == 1 {
							okv = e
						}
					}
					if okv == nil {
						continue
					}
					n++
					key := fmt.Sprintf("%s:%s", ssaFuncKey(f), normalizePhi(vpath(lk.X)))
					// the ok==true edge
					bad := false
					found := false
					for _, ref := range *okv.Referrers() {
						ifi, isIf := ref.(*ssa.If)
						if !isIf {
							continue
						}
						found = true
						hit := ifi.Block().Succs[0]
						for _, sc := range selfCalls {
							if reachesWithout(hit, sc.Block(), nil) {
								bad = true
							}
						}
					}
					// the miss edge: every self call reachable from it comes after an update of the key
					unmarked := token.NoPos
					for _, ref := range *okv.Referrers() {
						ifi, isIf := ref.(*ssa.If)
						if !isIf {
							continue
						}
						miss := ifi.Block().Succs[1]
						for _, sc := range selfCalls {
							if miss != sc.Block() && !reachesWithout(miss, sc.Block(), nil) {
								continue
							}
							dominated := false
							for _, mu := range marksAt {
								if mu.Block() == sc.Block() {
									for _, x := range sc.Block().Instrs {
										if x == ssa.Instruction(mu) {
											dominated = true
										}
										if x == ssa.Instruction(sc) {
											break
										}
									}
								} else if mu.Block().Dominates(sc.Block()) && (miss == mu.Block() || miss.Dominates(mu.Block())) {
									dominated = true
								}
							}
							if !dominated {
								unmarked = sc.Pos()
							}
						}
					}
					switch {
					case found && unmarked != token.NoPos:
						c.Bad(rule, key, unmarked, "after a miss the recursive call is made before the key is entered in the memo map: a recursive definition never finds its own key and recurses until the stack overflows, which kills the process")
					case !found:
						c.Bad(rule, key, lk.Pos(), "the result of the memo lookup is not branched on directly: a hit must leave the function before the recursive call")
					case bad:
						c.Bad(rule, key, lk.Pos(), "a hit in the memo map (which includes the in-progress marker stored before descending) can still reach the recursive call: a recursive definition recurses until the stack overflows, which kills the process")
					default:
						c.Ok(rule, key, lk.Pos(), "a hit in the memo map (in-progress marker included) never reaches the recursive call")
					}
				}
			}
		}
	}
	if n < 1 {
		c.add(rule, "count:", token.NoPos, CountDropped, true, "no in-progress memo idiom found (compiler.longestPhrase confirmed by hand)")
	}
}
