package main

import (
	"fmt"
	"go/token"
	"go/types"

	"golang.org/x/tools/go/ssa"
)

// CYCLE(memo): a self-recursive function that marks its key "in progress" in a memo map before
// descending (memo[k] = marker; ...recursive call...; memo[k] = result) terminates on cyclic
// inputs only if a hit of that key — marker included — never reaches the recursive call: no
// self-call may be reachable from the ok == true edge of the lookup of the same key.
func ruleMEMOCYCLE(c *Ctx, pkgs ...string) {
	const rule = "CYCLE(memo)"
	n := 0
	for _, rel := range pkgs {
		for _, f := range c.SrcFuncs(rel) {
			// self calls
			var selfCalls []*ssa.Call
			for _, b := range f.Blocks {
				for _, ins := range b.Instrs {
					if call, ok := ins.(*ssa.Call); ok && call.Call.StaticCallee() == f {
						selfCalls = append(selfCalls, call)
					}
				}
			}
			if len(selfCalls) == 0 {
				continue
			}
			for _, b := range f.Blocks {
				for _, ins := range b.Instrs {
					lk, ok := ins.(*ssa.Lookup)
					if !ok || !lk.CommaOk {
						continue
					}
					if _, isMap := lk.X.Type().Underlying().(*types.Map); !isMap {
						continue
					}
					// in-progress idiom: a MapUpdate of the same map and key that can be followed by a self call
					marks := false
					for _, b2 := range f.Blocks {
						for _, in2 := range b2.Instrs {
							mu, ok := in2.(*ssa.MapUpdate)
							if !ok || vpath(mu.Map) != vpath(lk.X) || vpath(mu.Key) != vpath(lk.Index) {
								continue
							}
							for _, sc := range selfCalls {
								if sc.Block() == b2 {
									after := false
									for _, x := range b2.Instrs {
										if x == ssa.Instruction(mu) {
											after = true
										}
										if x == ssa.Instruction(sc) && after {
											marks = true
										}
									}
								} else if reachesWithout(b2, sc.Block(), nil) {
									marks = true
								}
							}
						}
					}
					if !marks {
						continue
					}
					var okv *ssa.Extract
					for _, ref := range *lk.Referrers() {
						if e, isE := ref.(*ssa.Extract); isE && e.Index == 1 {
							okv = e
						}
					}
					if okv == nil {
						continue
					}
					n++
					key := fmt.Sprintf("%s:%s", ssaFuncKey(f), normalizePhi(vpath(lk.X)))
					// the ok==true edge
					bad := false
					found := false
					for _, ref := range *okv.Referrers() {
						ifi, isIf := ref.(*ssa.If)
						if !isIf {
							continue
						}
						found = true
						hit := ifi.Block().Succs[0]
						for _, sc := range selfCalls {
							if reachesWithout(hit, sc.Block(), nil) {
								bad = true
							}
						}
					}
					switch {
					case !found:
						c.Bad(rule, key, lk.Pos(), "the result of the memo lookup is not branched on directly: a hit must leave the function before the recursive call")
					case bad:
						c.Bad(rule, key, lk.Pos(), "a hit in the memo map (which includes the in-progress marker stored before descending) can still reach the recursive call: a recursive definition recurses until the stack overflows, which kills the process")
					default:
						c.Ok(rule, key, lk.Pos(), "a hit in the memo map (in-progress marker included) never reaches the recursive call")
					}
				}
			}
		}
	}
	if n < 1 {
		c.add(rule, "count:", token.NoPos, CountDropped, true, "no in-progress memo idiom found (compiler.longestPhrase confirmed by hand)")
	}
}
