package main

import (
	"fmt"
	"go/token"
	"go/types"
	"strings"

	"golang.org/x/tools/go/ssa"
)

// SOURCE(identity): every offset a lexer reports (token ranges, error positions, listener
// events) is an offset into the string the caller passed to Init. Init must therefore keep the
// caller's string as is: every store into l.source in (*Lexer).Init stores the source
// parameter itself, never a re-slice (skipping a byte-order mark moves l.offset instead).
func ruleSOURCEID(c *Ctx) {
	const rule = "SOURCE(identity)"
	n := 0
	for _, rel := range lexerPkgs {
		f := c.SSAFunc(rel, "(*Lexer).Init")
		if f == nil || len(f.Params) < 2 {
			continue
		}
		src := f.Params[1]
		stores := 0
		bad := ""
		var pos token.Pos = f.Pos()
		for _, b := range f.Blocks {
			for _, ins := range b.Instrs {
				st, ok := ins.(*ssa.Store)
				if !ok {
					continue
				}
				fa, ok := st.Addr.(*ssa.FieldAddr)
				if !ok || fa.X != ssa.Value(f.Params[0]) || fieldName(fa.X.Type(), fa.Field) != "source" {
					continue
				}
				stores++
				if st.Val != ssa.Value(src) {
					bad = vpath(st.Val)
					pos = st.Pos()
				}
			}
		}
		n++
		key := rel + ".Lexer.Init:source"
		switch {
		case stores == 0:
			c.Lost(rule, key, "Init does not store l.source")
		case bad != "":
			c.Bad(rule, key, pos, "Init stores %s into l.source instead of the caller's string: every reported offset is then relative to a different string than the one the caller holds (after a byte-order mark all ranges are 3 bytes low)", bad)
		default:
			c.Ok(rule, key, pos, "l.source is the caller's string, unmodified")
		}
	}
	if n < 5 {
		c.add(rule, "count:", token.NoPos, CountDropped, true, "only %d generated lexers with Init found", n)
	}
}

// ACCESSOR(len): container.IntSliceSet numbers the slices it interns 0,1,2,...; lalr.minimize
// stops refining when two successive partitions have the same Len(). Len() must return the
// counter that Insert advances on the new-element path (a load of a field F such that some
// method stores F+1 into it), not the size of the hash table behind it.
func ruleLENACCESSOR(c *Ctx) {
	const rule = "ACCESSOR(len)"
	for _, tn := range []string{"IntSliceSet", "IntSliceMap"} {
		f := c.SSAFunc("util/container", "(*"+tn+").Len")
		if f == nil {
			continue
		}
		key := "util/container." + tn + ".Len"
		var fld string
		okShape := false
		for _, b := range f.Blocks {
			for _, ins := range b.Instrs {
				ret, ok := ins.(*ssa.Return)
				if !ok || len(ret.Results) != 1 {
					continue
				}
				if ld, ok := ret.Results[0].(*ssa.UnOp); ok && ld.Op == token.MUL {
					if fa, ok := ld.X.(*ssa.FieldAddr); ok && fa.X == ssa.Value(f.Params[0]) {
						fld = fieldName(fa.X.Type(), fa.Field)
						okShape = true
					}
				}
			}
		}
		if !okShape {
			c.Bad(rule, key, f.Pos(), "Len() does not return a counter field of the set (it returns a derived quantity such as the number of hash buckets): with colliding hashes it under-counts and the partition refinement of minimize stops before its fixed point")
			continue
		}
		// is the field advanced by one somewhere?
		advanced := false
		for _, g := range c.SrcFuncs("util/container") {
			if g.Signature.Recv() == nil || !strings.HasSuffix(g.Signature.Recv().Type().String(), "."+tn) {
				continue
			}
			for _, b := range g.Blocks {
				for _, ins := range b.Instrs {
					st, ok := ins.(*ssa.Store)
					if !ok {
						continue
					}
					fa, ok := st.Addr.(*ssa.FieldAddr)
					if !ok || fieldName(fa.X.Type(), fa.Field) != fld {
						continue
					}
					if bo, ok := st.Val.(*ssa.BinOp); ok && bo.Op == token.ADD && vpath(bo.Y) == "1" {
						advanced = true
					}
				}
			}
		}
		if advanced {
			c.Ok(rule, key, f.Pos(), "Len() returns the field %s, which Insert advances by one per new element", fld)
		} else {
			c.Bad(rule, key, f.Pos(), "Len() returns field %s, which no method of %s advances by one", fld, tn)
		}
	}
}

// GUARD(final) part 2: the set of final states that the initial partition protects is built from
// the *elements* of Tables.FinalStates (state numbers), not from their positions in the slice.
func ruleFINALELEMS(c *Ctx) {
	const rule = "GUARD(final)"
	f := c.SSAFunc("lalr", "partitionStatesByAction")
	if f == nil {
		return
	}
	key := "lalr.partitionStatesByAction:final-set-elements"
	found := false
	for _, b := range f.Blocks {
		for _, ins := range b.Instrs {
			mu, ok := ins.(*ssa.MapUpdate)
			if !ok {
				continue
			}
			mt, ok := mu.Map.Type().Underlying().(*types.Map)
			if !ok || !types.Identical(mt.Elem(), types.Typ[types.Bool]) {
				continue
			}
			found = true
			if ld, ok := mu.Key.(*ssa.UnOp); ok && ld.Op == token.MUL {
				if ia, ok := ld.X.(*ssa.IndexAddr); ok && strings.HasSuffix(vpath(ia.X), ".FinalStates") {
					c.Ok(rule, key, mu.Pos(), "the protected set holds the elements of Tables.FinalStates")
					continue
				}
			}
			c.Bad(rule, key, mu.Pos(), "the set of protected final states is filled with %s, not with the elements of Tables.FinalStates (a range over the slice's indices protects the entry states 0..n-1 instead)", normalizePhi(vpath(mu.Key)))
		}
	}
	if !found {
		c.Lost(rule, key, "no boolean set is filled in partitionStatesByAction")
	}
}

// INTERVAL(bitset-size): the generated selector.OneOf builds a bit set over node types: an
// array of `size` words indexed by t/bits for every listed t <= max. The size expression,
// evaluated for every max in [0, 8*bits], must exceed max/bits (textbook (max+bits-1)/bits is one
// word short exactly when max is a multiple of bits, because max is an index, not a count).
func ruleBITSETSIZE(c *Ctx) {
	const rule = "INTERVAL(bitset-size)"
	n := 0
	for _, rel := range parserPkgs {
		f := c.SSAFunc(rel+"/selector", "OneOf")
		if f == nil {
			continue
		}
		n++
		key := rel + "/selector.OneOf:size"
		// the MakeSlice length
		var size ssa.Value
		for _, b := range f.Blocks {
			for _, ins := range b.Instrs {
				if ms, ok := ins.(*ssa.MakeSlice); ok {
					size = ms.Len
				}
			}
		}
		if size == nil {
			c.Lost(rule, key, "no make([]T, size) found in OneOf")
			continue
		}
		// evaluate size as a function of the one non-constant leaf (max)
		var leaf ssa.Value
		var eval func(v ssa.Value, x int64) (int64, bool)
		eval = func(v ssa.Value, x int64) (int64, bool) {
			switch y := v.(type) {
			case *ssa.Const:
				if y.Value == nil {
					return 0, false
				}
				return y.Int64(), true
			case *ssa.Convert:
				return eval(y.X, x)
			case *ssa.BinOp:
				a, ok1 := eval(y.X, x)
				b, ok2 := eval(y.Y, x)
				if !ok1 || !ok2 {
					return 0, false
				}
				switch y.Op {
				case token.ADD:
					return a + b, true
				case token.SUB:
					return a - b, true
				case token.MUL:
					return a * b, true
				case token.QUO:
					if b == 0 {
						return 0, false
					}
					return a / b, true
				case token.SHR:
					return a >> uint(b), true
				}
				return 0, false
			default:
				if leaf == nil || leaf == v {
					leaf = v
					return x, true
				}
				return 0, false
			}
		}
		// bits: the divisor used to index words (t / bits): find a QUO/SHR by constant applied to an element
		bits := int64(0)
		for _, b := range f.Blocks {
			for _, ins := range b.Instrs {
				if bo, ok := ins.(*ssa.BinOp); ok && bo.Op == token.QUO {
					if k, ok := bo.Y.(*ssa.Const); ok && k.Value != nil && k.Int64() > 1 {
						bits = k.Int64()
					}
				}
			}
		}
		if bits == 0 {
			c.Lost(rule, key, "the word size of the bit set (t / bits) was not found")
			continue
		}
		bad := int64(-1)
		for max := int64(0); max <= 8*bits; max++ {
			s, ok := eval(size, max)
			if !ok {
				bad = -2
				break
			}
			if s <= max/bits {
				bad = max
				break
			}
		}
		switch {
		case bad == -2:
			c.Undec(rule, key, f.Pos(), "the size expression %s is not an arithmetic function of one value", vpath(size))
		case bad >= 0:
			c.Bad(rule, key, f.Pos(), "for max = %d the bit set has %s = %d words but word %d is written: index out of range at package init of the generated ast package", bad, vpath(size), bad/bits, bad/bits)
		default:
			c.Ok(rule, key, f.Pos(), "size %s exceeds max/%d for every max in [0,%d]", vpath(size), bits, 8*bits)
		}
	}
	if n < 2 {
		c.add(rule, "count:", token.NoPos, CountDropped, true, "only %d generated selector packages found", n)
	}
}

// CONSTAGREE(last-entry): lex.Tables.SymbolMap ends with the catch-all entry whose Target is the
// symbol of every rune not listed before (Tables.LastMapEntry). shiftdfa.Pack gives all
// non-ASCII bytes that symbol: the entry it reads must be SymbolMap[len(SymbolMap)-1] (or
// LastMapEntry()), not an entry reached by a loop variable.
func ruleLASTENTRY(c *Ctx) {
	const rule = "CONSTAGREE(last-entry)"
	f := c.SSAFunc("shiftdfa", "Pack")
	if f == nil {
		c.Lost(rule, "shiftdfa.Pack", "function not found")
		return
	}
	key := "shiftdfa.Pack:non-ascii-symbol"
	// loads of SymbolMap[X].Target outside loops
	loops := naturalLoops(f)
	n := 0
	for _, b := range f.Blocks {
		if innermostLoop(loops, b) != nil {
			continue
		}
		for _, ins := range b.Instrs {
			fa, ok := ins.(*ssa.FieldAddr)
			if !ok || fieldName(fa.X.Type(), fa.Field) != "Target" {
				continue
			}
			ia, ok := fa.X.(*ssa.IndexAddr)
			if !ok || !strings.HasSuffix(vpath(ia.X), ".SymbolMap") {
				continue
			}
			n++
			idx := vpath(ia.Index)
			if strings.HasPrefix(idx, "(len(") && strings.HasSuffix(idx, ".SymbolMap) - 1)") {
				c.Ok(rule, key, fa.Pos(), "the symbol of non-ASCII bytes is read from the last SymbolMap entry")
			} else {
				c.Bad(rule, key, fa.Pos(), "the symbol given to every non-ASCII byte is read from SymbolMap[%s], not from the last entry (the catch-all range): with a class boundary at 0x80 all bytes >= 0x80 behave like DEL", normalizePhi(idx))
			}
		}
	}
	for _, b := range f.Blocks {
		for _, ins := range b.Instrs {
			if call, ok := ins.(*ssa.Call); ok {
				if g := call.Call.StaticCallee(); g != nil && g.Name() == "LastMapEntry" {
					n++
					c.Ok(rule, key, call.Pos(), "the symbol of non-ASCII bytes is read through Tables.LastMapEntry()")
				}
			}
		}
	}
	if n == 0 {
		c.Lost(rule, key, "Pack no longer reads the Target of a SymbolMap entry outside its loops")
	}
	_ = fmt.Sprint
}

// GUARD(sibling-boundary): builder.addNode decides which stacked nodes become children of the new
// node [offset, endoffset): walking back over the stack, a node is a *later sibling* (not a
// child) exactly when it starts at or after the new node's end — the test is on the stacked
// node's start offset. Testing its end offset instead swallows an empty node that sits exactly
// at the end of the new range (a mid-rule range followed by an empty marker node).
func ruleSIBLINGBOUNDARY(c *Ctx) {
	const rule = "GUARD(sibling-boundary)"
	n := 0
	for _, rel := range parserPkgs {
		f := c.SSAFunc(rel+"/ast", "(*builder).addNode")
		if f == nil || len(f.Params) < 4 {
			continue
		}
		n++
		key := rel + "/ast.builder.addNode:later-sibling"
		endoff := f.Params[3]
		found, ok := false, false
		var pos token.Pos = f.Pos()
		for _, b := range f.Blocks {
			if len(b.Instrs) == 0 {
				continue
			}
			ifi, isIf := b.Instrs[len(b.Instrs)-1].(*ssa.If)
			if !isIf {
				continue
			}
			l, op, r, isCmp := cmpNormV(ifi.Cond, true)
			if !isCmp {
				continue
			}
			// comparisons that involve the endoffset parameter and a field of a stacked node
			var other ssa.Value
			switch {
			case stripConv(l) == ssa.Value(endoff):
				other = r
			case stripConv(r) == ssa.Value(endoff):
				other = l
			default:
				continue
			}
			p := vpath(other)
			if !strings.Contains(p, ".stack[") {
				continue
			}
			found = true
			pos = ifi.Cond.Pos()
			// endoffset <= stack[i].offset
			if strings.HasSuffix(p, ".offset") && op == "<=" && stripConv(l) == ssa.Value(endoff) {
				ok = true
			}
		}
		// the child test: a stacked node belongs to the new node iff it starts at or after the new
		// node's start (stack[i].offset >= offset). With its end offset instead, an empty node at
		// the very start of the new range is left behind as a preceding sibling.
		{
			key2 := rel + "/ast.builder.addNode:child-test"
			off := f.Params[2]
			found2, ok2 := false, false
			pos2 := f.Pos()
			for _, b := range f.Blocks {
				if len(b.Instrs) == 0 {
					continue
				}
				ifi, isIf := b.Instrs[len(b.Instrs)-1].(*ssa.If)
				if !isIf {
					continue
				}
				l, op, r, isCmp := cmpNormV(ifi.Cond, true)
				if !isCmp {
					continue
				}
				var other ssa.Value
				switch {
				case stripConv(l) == ssa.Value(off):
					other = r
				case stripConv(r) == ssa.Value(off):
					other = l
				default:
					continue
				}
				pp := vpath(other)
				if !strings.Contains(pp, ".stack[") {
					continue
				}
				found2 = true
				pos2 = ifi.Cond.Pos()
				if strings.HasSuffix(pp, ".offset") && op == "<=" && stripConv(l) == ssa.Value(off) {
					ok2 = true
				}
			}
			switch {
			case !found2:
				c.Lost(rule, key2, "no comparison between offset and a stacked node found")
			case ok2:
				c.Ok(rule, key2, pos2, "a stacked node is a child candidate iff its start offset >= offset")
			default:
				c.Bad(rule, key2, pos2, "the child test of addNode does not compare the stacked node's start offset with offset (stack[i].offset >= offset): an empty node at the very start of the new range is not adopted and stays behind as a sibling (a required accessor finds nothing)")
			}
		}
		switch {
		case !found:
			c.Lost(rule, key, "no comparison between endoffset and a stacked node found")
		case ok:
			c.Ok(rule, key, pos, "a stacked node is a later sibling iff its start offset >= endoffset")
		default:
			c.Bad(rule, key, pos, "the later-sibling test of addNode does not compare the stacked node's start offset with endoffset (stack[i].offset >= endoffset): an empty node at the end of the new range is adopted as a child although it was reported as a following sibling")
		}
	}
	if n < 2 {
		c.add(rule, "count:", token.NoPos, CountDropped, true, "only %d generated ast builders found", n)
	}
}

// FIELDCOV(rebuild): when a record is rebuilt from another record of the same type — a composite
// literal in which at least one field is copied from the same field of a value of that type —
// every field of the type has to be given (copied or recomputed). A field that is left out
// silently takes its zero value (Instantiate rebuilding syntax.Input without NoEoi turns a
// no-eoi input into an eoi input for every grammar that has template parameters).
func ruleREBUILD(c *Ctx, pkgs ...string) {
	const rule = "FIELDCOV(rebuild)"
	n := 0
	for _, rel := range pkgs {
		for _, f := range c.SrcFuncs(rel) {
			ord := map[string]int{}
			for _, b := range f.Blocks {
				for _, ins := range b.Instrs {
					al, ok := ins.(*ssa.Alloc)
					if !ok {
						continue
					}
					nt, ok := al.Type().(*types.Pointer).Elem().(*types.Named)
					if !ok {
						continue
					}
					stt, ok := nt.Underlying().(*types.Struct)
					if !ok || stt.NumFields() < 2 || stt.NumFields() > 6 {
						continue
					}
					plain := true
					for i := 0; i < stt.NumFields(); i++ {
						if _, isBasic := stt.Field(i).Type().Underlying().(*types.Basic); !isBasic {
							plain = false
						}
					}
					if !plain {
						continue // records with pointers/slices are built incrementally all over the place
					}
					set := map[string]bool{}
					copied := 0
					for _, ref := range *al.Referrers() {
						fa, ok := ref.(*ssa.FieldAddr)
						if !ok {
							continue
						}
						for _, r2 := range *fa.Referrers() {
							st, ok := r2.(*ssa.Store)
							if !ok || st.Addr != ssa.Value(fa) {
								continue
							}
							fname := stt.Field(fa.Field).Name()
							set[fname] = true
							// copied from the same field of another value of the same type?
							switch y := st.Val.(type) {
							case *ssa.Field:
								if types.Identical(y.X.Type(), nt) && y.Field == fa.Field {
									copied++
								}
							case *ssa.UnOp:
								if fa2, ok := y.X.(*ssa.FieldAddr); ok && fa2.Field == fa.Field && fa2.X != ssa.Value(al) {
									if p, ok := fa2.X.Type().Underlying().(*types.Pointer); ok && types.Identical(p.Elem(), nt) {
										copied++
									}
								}
							}
						}
					}
					if copied == 0 || len(set) == 0 {
						continue
					}
					n++
					key := ordKey(ord, ssaFuncKey(f)+":"+nt.Obj().Name())
					var missing []string
					for i := 0; i < stt.NumFields(); i++ {
						if !set[stt.Field(i).Name()] {
							missing = append(missing, stt.Field(i).Name())
						}
					}
					if len(missing) == 0 {
						c.Ok(rule, key, al.Pos(), "the rebuilt %s gives all %d fields", nt.Obj().Name(), stt.NumFields())
					} else {
						c.Bad(rule, key, al.Pos(), "a %s is rebuilt from another %s (%d field(s) copied) but %s is left out and becomes the zero value", nt.Obj().Name(), nt.Obj().Name(), copied, strings.Join(missing, ", "))
					}
				}
			}
		}
	}
	if n < 1 {
		c.add(rule, "count:", token.NoPos, CountDropped, true, "no rebuilt record found in %v (syntax.Instantiate's Input literal confirmed by hand)", pkgs)
	}
}

// CONSISTENT(scope-map): compiler.(*syntaxLoader).pushName makes alias names unique across the
// whole top-level rule by probing name, name#0, name#1, ... All probes that take part in that
// decision must consult the same map (the top-level rule's names); probing the nested rule's own
// map in one of them lets a third occurrence inside a parenthesised group overwrite name#1.
func ruleSCOPEMAP(c *Ctx) {
	const rule = "CONSISTENT(scope-map)"
	f := c.SSAFunc("compiler", "(*syntaxLoader).pushName")
	key := "compiler.syntaxLoader.pushName:probes"
	if f == nil {
		c.Lost(rule, key, "function not found")
		return
	}
	var maps []ssa.Value
	for _, b := range f.Blocks {
		for _, ins := range b.Instrs {
			if lk, ok := ins.(*ssa.Lookup); ok && lk.CommaOk {
				maps = append(maps, lk.X)
			}
		}
	}
	if len(maps) < 3 {
		c.Lost(rule, key, "only %d existence probes found in pushName (3 confirmed by hand)", len(maps))
		return
	}
	same := true
	for _, m := range maps[1:] {
		if m != maps[0] {
			same = false
		}
	}
	if same {
		c.Ok(rule, key, f.Pos(), "all %d existence probes consult the same (top-level) name map", len(maps))
	} else {
		c.Bad(rule, key, f.Pos(), "the existence probes of pushName consult different maps: the free #N suffix is searched in one scope and claimed in another, so an alias inside a nested group can overwrite name#N of the enclosing rule")
	}
}

// PAIR(seen-set): the once-only idiom `if !seen[k] { first-time work }` is complete only if the
// guarded branch records k (seen[k] = true); otherwise the "first-time work" (a variable
// declaration emitted into generated code) is repeated for every occurrence of k.
func ruleSEENSET(c *Ctx, pkgs ...string) {
	const rule = "PAIR(seen-set)"
	n := 0
	for _, rel := range pkgs {
		for _, f := range c.SrcFuncs(rel) {
			ord := map[string]int{}
			for _, b := range f.Blocks {
				if len(b.Instrs) == 0 {
					continue
				}
				ifi, ok := b.Instrs[len(b.Instrs)-1].(*ssa.If)
				if !ok {
					continue
				}
				cond, pol := ifi.Cond, true
				for {
					if u, isU := cond.(*ssa.UnOp); isU && u.Op == token.NOT {
						cond, pol = u.X, !pol
						continue
					}
					break
				}
				lk, ok := cond.(*ssa.Lookup)
				if !ok || lk.CommaOk {
					continue
				}
				mt, ok := lk.X.Type().Underlying().(*types.Map)
				if !ok || !types.Identical(mt.Elem().Underlying(), types.Typ[types.Bool]) {
					continue
				}
				// the branch taken when the key is NOT in the set
				miss := b.Succs[1]
				if !pol {
					miss = b.Succs[0]
				}
				if len(miss.Preds) != 1 {
					continue
				}
				// is this map ever updated with `true` in this function (a seen-set, not a read-only set)?
				isSeenSet := false
				recorded := false
				loopsF := naturalLoops(f)
				guardLoop := innermostLoop(loopsF, b)
				for _, x := range f.Blocks {
					for _, ins := range x.Instrs {
						mu, ok := ins.(*ssa.MapUpdate)
						if !ok || vpath(mu.Map) != vpath(lk.X) || vpath(mu.Value) != "true" {
							continue
						}
						// a set that is filled by an earlier loop and only consulted here is a plain
						// membership filter, not the once-only idiom
						if guardLoop != nil && !guardLoop.Body[x] {
							continue
						}
						isSeenSet = true
						if vpath(mu.Key) == vpath(lk.Index) && (x == miss || miss.Dominates(x)) {
							recorded = true
						}
					}
				}
				// sets filled elsewhere (read-only here) are out of scope; but a map literal created in
				// this function that is only ever read is exactly the broken idiom
				if !isSeenSet {
					continue
				}
				n++
				key := ordKey(ord, ssaFuncKey(f)+":"+normalizePhi(vpath(lk.X))+"["+normalizePhi(vpath(lk.Index))+"]")
				if recorded {
					c.Ok(rule, key, lk.Pos(), "the first-time branch records the key in the set")
				} else {
					c.Bad(rule, key, lk.Pos(), "the branch guarded by !%s[%s] never records that key: the once-only work is repeated for every occurrence (a second `nn, _ := ...` declaration in generated code does not compile)", normalizePhi(vpath(lk.X)), normalizePhi(vpath(lk.Index)))
				}
			}
		}
	}
	if n < 3 {
		c.add(rule, "count:", token.NoPos, CountDropped, true, "only %d once-only guards found", n)
	}
}

// GUARD(inline-unique): when every lexer rule has a distinct token and no code, the generated
// lexer switches directly on token ids (`case token.X:`). compiler.canInlineRules must refuse
// that shortcut when two rules yield the same token (duplicate case labels do not compile): it
// keeps a set of the tokens seen and returns false under a membership test on it.
func ruleINLINEUNIQUE(c *Ctx) {
	const rule = "GUARD(inline-unique)"
	f := c.SSAFunc("compiler", "(*lexerCompiler).canInlineRules")
	key := "compiler.lexerCompiler.canInlineRules:duplicates"
	if f == nil {
		c.Lost(rule, key, "function not found")
		return
	}
	member, record := false, false
	for _, b := range f.Blocks {
		for _, ins := range b.Instrs {
			call, ok := ins.(*ssa.Call)
			if !ok {
				continue
			}
			g := call.Call.StaticCallee()
			if g == nil || g.Signature.Recv() == nil || !strings.HasSuffix(g.Signature.Recv().Type().String(), "container.BitSet") {
				continue
			}
			switch g.Name() {
			case "Get":
				// a `return false` must be reachable on the true outcome
				for _, r := range *call.Referrers() {
					if _, ok := r.(*ssa.If); ok {
						member = true
					}
					if _, ok := r.(*ssa.Phi); ok {
						member = true
					}
					if bo, ok := r.(*ssa.BinOp); ok && bo.Op == token.LOR {
						member = true
					}
				}
			case "Set":
				record = true
			}
		}
	}
	if member && record {
		c.Ok(rule, key, f.Pos(), "canInlineRules keeps a set of the tokens seen and tests membership before accepting a rule")
	} else {
		c.Bad(rule, key, f.Pos(), "canInlineRules does not track which tokens already have a rule (membership test: %v, recording: %v): two rules of one token are inlined into duplicate `case` labels", member, record)
	}
}
