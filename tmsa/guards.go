package main

import (
	"fmt"
	"go/constant"
	"go/token"
	"go/types"
	"strings"

	"golang.org/x/tools/go/ssa"
)

// gcond is a branch condition that must hold (Pol=true) or fail (Pol=false) for a block to run.
type gcond struct {
	V   ssa.Value
	Pol bool
	If  *ssa.If
}

// governing returns the branch conditions that hold on every path from the function entry to
// block b: for each dominator d of b that ends in an If, the successor edge through which b is
// reached, when only one of the two edges can lead to b.
func governing(b *ssa.BasicBlock) []gcond {
	var out []gcond
	for d := b.Idom(); d != nil; d = d.Idom() {
		if len(d.Instrs) == 0 {
			continue
		}
		ifi, ok := d.Instrs[len(d.Instrs)-1].(*ssa.If)
		if !ok {
			continue
		}
		t, f := d.Succs[0], d.Succs[1]
		rt, rf := reachesWithout(t, b, d), reachesWithout(f, b, d)
		switch {
		case rt && !rf:
			out = append(out, gcond{ifi.Cond, true, ifi})
		case rf && !rt:
			out = append(out, gcond{ifi.Cond, false, ifi})
		}
	}
	return out
}

// reachesWithout: can `to` be reached from `from` without passing through `avoid`?
func reachesWithout(from, to, avoid *ssa.BasicBlock) bool {
	if from == to {
		return true
	}
	seen := map[*ssa.BasicBlock]bool{avoid: true}
	st := []*ssa.BasicBlock{from}
	for len(st) > 0 {
		x := st[len(st)-1]
		st = st[:len(st)-1]
		if x == to {
			return true
		}
		if seen[x] {
			continue
		}
		seen[x] = true
		st = append(st, x.Succs...)
	}
	return false
}

// flattenConds expands conjunctions/negations: a condition `!x` with Pol p is x with !p; the
// short-circuit forms are already separate Ifs in SSA. Phis of booleans (a && b materialised
// as a value) are left alone.
func flattenConds(cs []gcond) []gcond {
	var out []gcond
	for _, c := range cs {
		v, pol := c.V, c.Pol
		for {
			if u, ok := v.(*ssa.UnOp); ok && u.Op == token.NOT {
				v, pol = u.X, !pol
				continue
			}
			break
		}
		out = append(out, gcond{v, pol, c.If})
	}
	return out
}

// vpath renders an SSA value as an access path, for matching conditions structurally:
// parameters by name, fields by name, loads transparently, constants by value.
func vpath(v ssa.Value) string { return vpathD(v, 0) }

func vpathD(v ssa.Value, d int) string {
	if d > 12 {
		return "…"
	}
	switch x := v.(type) {
	case *ssa.Parameter:
		return x.Name()
	case *ssa.FreeVar:
		return x.Name()
	case *ssa.Const:
		if x.Value == nil {
			return "nil"
		}
		if x.Value.Kind() == constant.String {
			return x.Value.ExactString()
		}
		return x.Value.String()
	case *ssa.Global:
		return x.Pkg.Pkg.Name() + "." + x.Name()
	case *ssa.Function:
		return calleeName(x)
	case *ssa.FieldAddr:
		return vpathD(x.X, d+1) + "." + fieldName(x.X.Type(), x.Field)
	case *ssa.Field:
		return vpathD(x.X, d+1) + "." + fieldName(x.X.Type(), x.Field)
	case *ssa.IndexAddr:
		return vpathD(x.X, d+1) + "[" + vpathD(x.Index, d+1) + "]"
	case *ssa.Index:
		return vpathD(x.X, d+1) + "[" + vpathD(x.Index, d+1) + "]"
	case *ssa.Lookup:
		return vpathD(x.X, d+1) + "[" + vpathD(x.Index, d+1) + "]"
	case *ssa.UnOp:
		switch x.Op {
		case token.MUL:
			return vpathD(x.X, d+1)
		case token.NOT:
			return "!" + vpathD(x.X, d+1)
		case token.SUB:
			return "-" + vpathD(x.X, d+1)
		}
		return x.Op.String() + vpathD(x.X, d+1)
	case *ssa.BinOp:
		return "(" + vpathD(x.X, d+1) + " " + x.Op.String() + " " + vpathD(x.Y, d+1) + ")"
	case *ssa.Convert:
		return vpathD(x.X, d+1)
	case *ssa.ChangeType:
		return vpathD(x.X, d+1)
	case *ssa.MakeInterface:
		return vpathD(x.X, d+1)
	case *ssa.Extract:
		return fmt.Sprintf("%s#%d", vpathD(x.Tuple, d+1), x.Index)
	case *ssa.Slice:
		s := vpathD(x.X, d+1) + "["
		if x.Low != nil {
			s += vpathD(x.Low, d+1)
		}
		s += ":"
		if x.High != nil {
			s += vpathD(x.High, d+1)
		}
		return s + "]"
	case *ssa.Call:
		cc := x.Common()
		var args []string
		for _, a := range cc.Args {
			args = append(args, vpathD(a, d+1))
		}
		name := ""
		if bi, ok := cc.Value.(*ssa.Builtin); ok {
			name = bi.Name()
		} else if g := cc.StaticCallee(); g != nil {
			name = calleeName(g)
		} else if cc.IsInvoke() {
			name = vpathD(cc.Value, d+1) + "." + cc.Method.Name()
		} else {
			name = vpathD(cc.Value, d+1)
		}
		return name + "(" + strings.Join(args, ",") + ")"
	case *ssa.Phi:
		return "φ" + x.Name()
	case *ssa.Alloc:
		if x.Comment != "" {
			return x.Comment
		}
		return "local"
	case *ssa.TypeAssert:
		return vpathD(x.X, d+1) + ".(" + types.TypeString(x.AssertedType, func(*types.Package) string { return "" }) + ")"
	}
	return v.Name()
}

// condStrings renders governing conditions as "path" / "!path".
func condStrings(cs []gcond) []string {
	var out []string
	for _, c := range flattenConds(cs) {
		s := vpath(c.V)
		if !c.Pol {
			s = "!" + s
		}
		out = append(out, s)
	}
	return out
}

// hasCond reports whether one of the governing conditions, rendered as a path, satisfies pred.
func hasCond(cs []gcond, pred func(path string, pol bool) bool) bool {
	for _, c := range flattenConds(cs) {
		if pred(vpath(c.V), c.Pol) {
			return true
		}
	}
	return false
}

// enumConstValue finds the constant value of a named constant in a package.
func (c *Ctx) enumConst(pkgrel, name string) (int64, bool) {
	p := c.Pkg(pkgrel)
	if p == nil {
		return 0, false
	}
	k, ok := p.Types.Scope().Lookup(name).(*types.Const)
	if !ok {
		return 0, false
	}
	v, ok := constant.Int64Val(constant.ToInt(k.Val()))
	return v, ok
}

// resolveCallee resolves the callee of a call: the static callee, or a closure that is the only
// value ever stored into the local variable the call loads its function from.
func resolveCallee(call ssa.CallInstruction) *ssa.Function {
	cc := call.Common()
	if g := cc.StaticCallee(); g != nil {
		return g
	}
	if cc.IsInvoke() {
		return nil
	}
	ld, ok := cc.Value.(*ssa.UnOp)
	if !ok || ld.Op != token.MUL {
		return nil
	}
	al, ok := ld.X.(*ssa.Alloc)
	if !ok || al.Referrers() == nil {
		return nil
	}
	var fn *ssa.Function
	for _, r := range *al.Referrers() {
		if st, ok := r.(*ssa.Store); ok && st.Addr == ssa.Value(al) {
			var g *ssa.Function
			switch v := st.Val.(type) {
			case *ssa.MakeClosure:
				g, _ = v.Fn.(*ssa.Function)
			case *ssa.Function:
				g = v
			}
			if g == nil || (fn != nil && fn != g) {
				return nil
			}
			fn = g
		}
	}
	return fn
}

// edgeConds returns the conditions that hold when control flows along the edge pred -> succ.
func edgeConds(pred, succ *ssa.BasicBlock) []gcond {
	cs := governing(pred)
	if len(pred.Instrs) > 0 {
		if ifi, ok := pred.Instrs[len(pred.Instrs)-1].(*ssa.If); ok && pred.Succs[0] != pred.Succs[1] {
			if pred.Succs[0] == succ {
				cs = append([]gcond{{ifi.Cond, true, ifi}}, cs...)
			} else if pred.Succs[1] == succ {
				cs = append([]gcond{{ifi.Cond, false, ifi}}, cs...)
			}
		}
	}
	return cs
}

// cmpNorm normalises a comparison condition with polarity to "L < R" / "L <= R" / "L == R" /
// "L != R" form over access paths (so that a>=b false, b>a true and !(a>=b) all read "a < b").
func cmpNorm(v ssa.Value, pol bool) (l, op, r string, ok bool) {
	for {
		if u, isU := v.(*ssa.UnOp); isU && u.Op == token.NOT {
			v, pol = u.X, !pol
			continue
		}
		break
	}
	bo, isB := v.(*ssa.BinOp)
	if !isB {
		return "", "", "", false
	}
	o := bo.Op
	if !pol {
		switch o {
		case token.LSS:
			o = token.GEQ
		case token.LEQ:
			o = token.GTR
		case token.GTR:
			o = token.LEQ
		case token.GEQ:
			o = token.LSS
		case token.EQL:
			o = token.NEQ
		case token.NEQ:
			o = token.EQL
		default:
			return "", "", "", false
		}
	}
	l, r = vpath(bo.X), vpath(bo.Y)
	switch o {
	case token.GTR:
		return r, "<", l, true
	case token.GEQ:
		return r, "<=", l, true
	case token.LSS:
		return l, "<", r, true
	case token.LEQ:
		return l, "<=", r, true
	case token.EQL:
		return l, "==", r, true
	case token.NEQ:
		return l, "!=", r, true
	}
	return "", "", "", false
}

// cmpNormV is cmpNorm on SSA values: returns (L, op, R) with op in {"<","<=","==","!="}.
func cmpNormV(v ssa.Value, pol bool) (l ssa.Value, op string, r ssa.Value, ok bool) {
	for {
		if u, isU := v.(*ssa.UnOp); isU && u.Op == token.NOT {
			v, pol = u.X, !pol
			continue
		}
		break
	}
	bo, isB := v.(*ssa.BinOp)
	if !isB {
		return nil, "", nil, false
	}
	o := bo.Op
	if !pol {
		switch o {
		case token.LSS:
			o = token.GEQ
		case token.LEQ:
			o = token.GTR
		case token.GTR:
			o = token.LEQ
		case token.GEQ:
			o = token.LSS
		case token.EQL:
			o = token.NEQ
		case token.NEQ:
			o = token.EQL
		default:
			return nil, "", nil, false
		}
	}
	switch o {
	case token.GTR:
		return bo.Y, "<", bo.X, true
	case token.GEQ:
		return bo.Y, "<=", bo.X, true
	case token.LSS:
		return bo.X, "<", bo.Y, true
	case token.LEQ:
		return bo.X, "<=", bo.Y, true
	case token.EQL:
		return bo.X, "==", bo.Y, true
	case token.NEQ:
		return bo.X, "!=", bo.Y, true
	}
	return nil, "", nil, false
}

// stripConv removes integer conversions.
func stripConv(v ssa.Value) ssa.Value {
	for {
		switch x := v.(type) {
		case *ssa.Convert:
			v = x.X
		case *ssa.ChangeType:
			v = x.X
		default:
			return v
		}
	}
}
