#!/bin/bash
# usage: trybuild.sh <grammar.tm>   (triage only: generate on a scratch copy of /repo's working
# tree and `go build` the result)
set -e
G=$(readlink -f "$1")
S=$(mktemp -d /tmp/tri.XXXXXX)
trap 'rm -rf "$S"' EXIT
rsync -a --exclude .git "${REPO:-/repo}/" "$S/"
cp /verif/tools/triage/zz_build_test.go.txt "$S/gen/zz_build_test.go"
cd "$S" && env -u GOWORK -u GOTOOLCHAIN -u GOSUMDB GOFLAGS=-mod=mod GOPROXY=off TRI_GRAMMAR="$G" TRI_KEEP="${TRI_KEEP:-}" go test -v -vet=off -count=1 -run TestZZBuild ./gen 2>&1 | grep -v "^=== RUN" || true
