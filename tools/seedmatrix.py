#!/usr/bin/env python3
"""Applies every confirmed seeded change (and every listed mutant) to a scratch copy of /repo, runs ALL
registered properties' checks on the copy in one process, and records which properties report
it: seeded/<id>/meta.json (detected_by, detecting_rules). Usage: seedmatrix.py [names...]"""
import json, subprocess, sys, glob, os, tempfile, shutil, re, concurrent.futures
os.chdir('/verif')
claimed=set(c['property_id'] for c in json.load(open('MANIFEST.json'))['checks'])
only=sys.argv[1:]
env=dict(os.environ)
def run(d):
    tmp=tempfile.mkdtemp(prefix='tmsa-mut-')
    try:
        subprocess.run(['rsync','-a','--exclude','.git','/repo/',tmp+'/repo/'],check=True)
        os.makedirs(tmp+'/verif'); shutil.copy('known_findings.json',tmp+'/verif/')
        p=subprocess.run(['patch','-p1','-s','--no-backup-if-mismatch'],stdin=open(d+'/patch.diff'),cwd=tmp+'/repo',capture_output=True,text=True)
        if p.returncode!=0: return d,None,{}
        r=subprocess.run(['bash','-c','. tmsa/env.sh; %s check -p ALL -tier quick -repo %s/repo -verif %s/verif'%(os.environ.get('TMSA_BIN','bin/tmsa'),tmp,tmp)],capture_output=True,text=True)
        det={}
        for l in r.stdout.splitlines():
            m=re.match(r'VIOLATION property=(\S+) .*? rule=(\S+) ',l)
            if m: det.setdefault(m.group(1),set()).add(m.group(2))
        return d,True,{k:sorted(v) for k,v in det.items()}
    finally:
        shutil.rmtree(tmp,ignore_errors=True)
seeds=[os.path.dirname(m) for m in sorted(glob.glob(os.environ.get('SEEDROOT','seeded')+'/*/meta.json'))]
if only: seeds=[s for s in seeds if os.path.basename(s) in only]
with concurrent.futures.ThreadPoolExecutor(max_workers=int(os.environ.get("MATRIX_JOBS","5"))) as ex:
    for d,applied,det in ex.map(run,seeds):
        meta=json.load(open(d+'/meta.json'))
        if applied is None:
            meta['patch_applies']=False
            print(os.path.basename(d),'PATCH DOES NOT APPLY to the current tree (see mutants/ for a port)')
        else:
            meta['patch_applies']=True
            meta['detected_by']=sorted(p for p in det if p in claimed)
            meta['detecting_rules']={p:r for p,r in det.items() if p in claimed}
            print(os.path.basename(d),'->',meta['detecting_rules'] or 'MISSED')
        json.dump(meta,open(d+'/meta.json','w'),indent=1)
