#!/usr/bin/env python3
"""Runs every confirmed seeded change against every claimed property's check (on scratch copies)
and records which properties report it in seeded/<id>/meta.json (detected_by)."""
import json, subprocess, sys, glob, os, concurrent.futures
os.chdir('/verif')
claimed=[c['property_id'] for c in json.load(open('MANIFEST.json'))['checks']]
only=sys.argv[1:]  # optional: seeded dir names
seeds=sorted(glob.glob('seeded/*/meta.json'))
jobs=[]
for mf in seeds:
    d=os.path.dirname(mf)
    if only and os.path.basename(d) not in only: continue
    for p in claimed: jobs.append((d,p))
def run(job):
    d,p=job
    r=subprocess.run(['tools/mutant.sh',p,d+'/patch.diff'],capture_output=True,text=True)
    rules=sorted(set(l.split('rule=')[1].split(' ')[0] for l in r.stdout.splitlines() if l.startswith('VIOLATION') and 'rule=' in l))
    return d,p,r.returncode==0,rules,('PATCH-FAILED' in r.stdout)
res={}
with concurrent.futures.ThreadPoolExecutor(max_workers=6) as ex:
    for d,p,det,rules,pf in ex.map(run,jobs):
        res.setdefault(d,{})[p]=(det,rules,pf)
for d,r in sorted(res.items()):
    meta=json.load(open(d+'/meta.json'))
    det=sorted(p for p,(x,_,_) in r.items() if x)
    meta['detected_by']=det
    meta['detecting_rules']={p:rl for p,(x,rl,_) in r.items() if x}
    if any(pf for (_,_,pf) in r.values()): meta['patch_applies']=False
    json.dump(meta,open(d+'/meta.json','w'),indent=1)
    print(os.path.basename(d), 'detected by', det or '-', {p:rl for p,(x,rl,_) in r.items() if x})
