#!/bin/bash
# usage: tools/confirm_seed2.sh <property id>   (round 3: /tmp/wt/<id>r3-out/{A,B,C}.*)
# Same confirmation as confirm_seed.sh; the demo destination is read from "DEST:" in X.notes.md.
set -u
ID="$1"
RS=${RS:-r3}
OUT=/tmp/wt/${ID}${RS}-out
export GOFLAGS=-mod=mod GOPROXY=off
for L in A B C; do
  [ -f "$OUT/$L.patch.diff" ] || continue
  DEST=$(grep -m1 -i '^DEST:' "$OUT/$L.notes.md" | sed 's/^DEST:[[:space:]]*//I; s#/*$##; s/`//g' | awk '{print $1}')
  [ -n "$DEST" ] || { echo "$ID-${RS}$L: no DEST line"; continue; }
  WT=/tmp/cs/${ID}${RS}$L
  rm -rf "$WT"; mkdir -p /tmp/cs
  git -C /repo worktree add -q --detach "$WT" HEAD || continue
  ( cd "$WT"
    cp "$OUT/$L.demo/"*_test.go "$DEST/" 2>/dev/null || { echo "$ID-${RS}$L: cannot copy demo to $DEST"; exit 3; }
    TESTS=$(grep -h -o '^func Test[A-Za-z0-9_]*' "$OUT/$L.demo/"*_test.go | sed 's/func //' | paste -sd'|')
    go test -vet=off -count=1 -run "^($TESTS)\$" "./$DEST/" >/tmp/cs/${ID}${RS}$L.base.log 2>&1; rc_base=$?
    if ! git apply "$OUT/$L.patch.diff"; then echo "$ID-${RS}$L: PATCH DOES NOT APPLY"; exit 2; fi
    go test -vet=off -count=1 -run "^($TESTS)\$" "./$DEST/" >/tmp/cs/${ID}${RS}$L.mut.log 2>&1; rc_mut=$?
    for f in "$OUT/$L.demo/"*_test.go; do rm -f "$DEST/$(basename $f)"; done
    go build ./... >/dev/null 2>&1; rc_build=$?
    go test -vet=off -count=1 ./... >/tmp/cs/${ID}${RS}$L.suite.log 2>&1; rc_suite=$?
    echo "$ID-${RS}$L: demo unchanged rc=$rc_base, with change rc=$rc_mut, build rc=$rc_build, suite rc=$rc_suite"
    if [ $rc_base -eq 0 ] && [ $rc_mut -ne 0 ] && [ $rc_build -eq 0 ] && [ $rc_suite -eq 0 ]; then
      S=${SEEDROOT:-/verif/seeded}/${ID}${RS}-$L; rm -rf "$S"; mkdir -p "$S/demo"
      cp "$OUT/$L.patch.diff" "$S/patch.diff"; cp "$OUT/$L.demo/"* "$S/demo/"; cp "$OUT/$L.notes.md" "$S/notes.md"
      python3 - "$ID" "$L" "$DEST" "$TESTS" "$(git -C /repo rev-parse --short HEAD)" "$RS" <<'PY'
import json,sys
pid,l,dest,tests,head,rs=sys.argv[1:7]
meta={"property":pid,"variant":rs+"-"+l,"round":int(rs[1:]),"demo_dest":dest,"demo_tests":tests.split('|'),"confirmed_at_repo_head":head,
 "what_was_run":[f"git worktree add --detach /tmp/cs/{pid}{rs}{l} HEAD",f"cp demo/*_test.go {dest}/ && go test -vet=off -count=1 -run '^({tests})$' ./{dest}/ -> PASS on the unchanged tree","git apply patch.diff; same go test -> FAIL","demo removed; go build ./... && go test -vet=off -count=1 ./... -> PASS with the change"],
 "needs_to_manifest":"see notes.md (written by the independent sub-agent that authored the change)","detected_by":None}
import os
json.dump(meta,open(os.environ.get('SEEDROOT','/verif/seeded')+f'/{pid}{rs}-{l}/meta.json','w'),indent=1)
PY
      echo "$ID-${RS}$L: CONFIRMED"
    else
      echo "$ID-${RS}$L: NOT CONFIRMED"; tail -4 /tmp/cs/${ID}${RS}$L.base.log; tail -4 /tmp/cs/${ID}${RS}$L.mut.log; grep -v "^ok\|no test files" /tmp/cs/${ID}${RS}$L.suite.log | tail -5
    fi
  )
  git -C /repo worktree remove --force "$WT" >/dev/null 2>&1; rm -rf "$WT"
done
