#!/bin/bash
# usage: trygrammar.sh <grammar.tm> "Func<TAB>text" ...   (triage only; runs the real generator
# on a scratch copy of /repo's working tree, never inside /repo)
set -e
G=$(readlink -f "$1"); shift
S=$(mktemp -d /tmp/tri.XXXXXX)
trap 'rm -rf "$S"' EXIT
rsync -a --exclude .git "${REPO:-/repo}/" "$S/"
cp /verif/tools/triage/zz_triage_test.go.txt "$S/gen/zz_triage_test.go"
IN=$(printf '%s\n' "$@")
cd "$S" && env -u GOWORK -u GOTOOLCHAIN -u GOSUMDB GOFLAGS=-mod=mod GOPROXY=off TRI_GRAMMAR="$G" TRI_EVENTS="${TRI_EVENTS:-}" TRI_INPUTS="$IN" go test -v -vet=off -count=1 -run TestZZTriage ./gen 2>&1 | grep -v "^ok\|^PASS\|^=== RUN\|^--- PASS" || true
