#!/bin/bash
# usage: tools/confirm_seed.sh <property id> <A|B> <dest dir for demo test files> 
# Confirms a seeded change delivered in /tmp/wt/<id>-out in a fresh scratch worktree of /repo:
# demo passes on the unchanged tree, fails with the patch, full suite passes with the patch.
# On success stores it as /verif/seeded/<id>-<letter>/ (patch.diff, demo/, notes.md, meta.json).
set -u
ID="$1"; L="$2"; DEST="$3"
OUT=/tmp/wt/$ID-out
export GOFLAGS=-mod=mod GOPROXY=off
WT=/tmp/cs/$ID$L
rm -rf "$WT"; mkdir -p /tmp/cs
git -C /repo worktree add -q --detach "$WT" HEAD || exit 3
cleanup() { git -C /repo worktree remove --force "$WT" >/dev/null 2>&1; rm -rf "$WT"; }
trap cleanup EXIT
cd "$WT"
cp "$OUT/$L.demo/"*_test.go "$DEST/" || exit 3
TESTS=$(grep -h -o '^func Test[A-Za-z0-9_]*' "$OUT/$L.demo/"*_test.go | sed 's/func //' | paste -sd'|')
base=$(go test -vet=off -count=1 -run "^($TESTS)\$" "./$DEST/" 2>&1); rc_base=$?
if ! git apply "$OUT/$L.patch.diff"; then echo "$ID-$L: PATCH DOES NOT APPLY to current HEAD"; exit 2; fi
mut=$(go test -vet=off -count=1 -run "^($TESTS)\$" "./$DEST/" 2>&1); rc_mut=$?
rm -f "$DEST"/zz_*_test.go
for f in "$OUT/$L.demo/"*_test.go; do rm -f "$DEST/$(basename $f)"; done
go build ./... >/dev/null 2>&1; rc_build=$?
suite=$(go test -vet=off -count=1 ./... 2>&1); rc_suite=$?
echo "$ID-$L: demo unchanged rc=$rc_base, demo with change rc=$rc_mut, build rc=$rc_build, suite with change rc=$rc_suite"
if [ $rc_base -eq 0 ] && [ $rc_mut -ne 0 ] && [ $rc_build -eq 0 ] && [ $rc_suite -eq 0 ]; then
  S=/verif/seeded/$ID-$L; rm -rf "$S"; mkdir -p "$S/demo"
  cp "$OUT/$L.patch.diff" "$S/patch.diff"; cp "$OUT/$L.demo/"* "$S/demo/"; cp "$OUT/$L.notes.md" "$S/notes.md"
  python3 - "$ID" "$L" "$DEST" "$TESTS" "$(git -C /repo rev-parse --short HEAD)" <<'PY'
import json,sys
pid,l,dest,tests,head=sys.argv[1:6]
notes=open(f'/verif/seeded/{pid}-{l}/notes.md').read()
meta={"property":pid,"variant":l,"demo_dest":dest,"demo_tests":tests.split('|'),
 "confirmed_at_repo_head":head,
 "what_was_run":[f"git worktree add --detach /tmp/cs/{pid}{l} HEAD",f"cp demo/*_test.go {dest}/ && go test -vet=off -count=1 -run '^({tests})$' ./{dest}/  -> PASS on the unchanged tree",
  "git apply patch.diff; same go test -> FAIL","demo removed; go build ./... && go test -vet=off -count=1 ./... -> PASS with the change"],
 "needs_to_manifest":"see notes.md (written by the independent sub-agent that authored the change)",
 "detected_by": None}
json.dump(meta,open(f'/verif/seeded/{pid}-{l}/meta.json','w'),indent=1)
PY
  echo "$ID-$L: CONFIRMED -> $S"
else
  echo "$ID-$L: NOT CONFIRMED"; echo "--- base:"; echo "$base" | tail -5; echo "--- mut:"; echo "$mut" | tail -5; echo "--- suite:"; echo "$suite" | grep -v "^ok\|no test files" | tail -10
  exit 1
fi
