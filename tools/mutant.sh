#!/bin/bash
# usage: tools/mutant.sh <property id> <patch file> [more property ids...]
# Applies a patch to a scratch copy of /repo (outside /repo and /verif), runs the property's
# check against the copy, prints the verdict lines, removes the copy. Exit 0 = detected.
set -u
VERIF="$(cd "$(dirname "$0")/.." && pwd)"
ID="$1"; PATCH="$(readlink -f "$2")"
. "$VERIF/tmsa/env.sh"
D=$(mktemp -d /tmp/tmsa-mut.XXXXXX)
trap 'rm -rf "$D"' EXIT
rsync -a --exclude .git /repo/ "$D/repo/"
mkdir -p "$D/verif"; cp "$VERIF/known_findings.json" "$D/verif/"
if ! (cd "$D/repo" && patch -p1 -s --no-backup-if-mismatch < "$PATCH"); then echo "PATCH-FAILED $PATCH"; exit 3; fi
out=$("$VERIF/bin/tmsa" check -p "$ID" -tier quick -repo "$D/repo" -verif "$D/verif" 2>&1); rc=$?
echo "$out" | grep -E "^(VIOLATION|KNOWN-FINDING|tmsa:)" | sed "s#$D/repo/##g; s#$D/verif#<scratch>#g" | cut -c1-${CUT:-400}
if [ $rc -eq 1 ]; then echo "DETECTED $ID $(basename "$PATCH")"; exit 0; fi
echo "MISSED $ID $(basename "$PATCH") (rc=$rc)"; exit 1
