#!/bin/bash
# usage: tools/sedmut.sh <property id> <file relative to repo> <sed expression>
# One-off mutant: sed on a scratch copy of /repo, run the check, clean up.
set -u
VERIF="$(cd "$(dirname "$0")/.." && pwd)"
ID="$1"; FILE="$2"; EXPR="$3"
. "$VERIF/tmsa/env.sh"
D=$(mktemp -d /tmp/tmsa-mut.XXXXXX)
trap 'rm -rf "$D"' EXIT
rsync -a --exclude .git /repo/ "$D/repo/"
mkdir -p "$D/verif"; cp "$VERIF/known_findings.json" "$D/verif/"
sed -i "$EXPR" "$D/repo/$FILE"
if diff -q "$D/repo/$FILE" "/repo/$FILE" >/dev/null; then echo "SED-NOOP"; exit 3; fi
diff "/repo/$FILE" "$D/repo/$FILE" | head -6
out=$("$VERIF/bin/tmsa" check -p "$ID" -tier quick -repo "$D/repo" -verif "$D/verif" 2>&1); rc=$?
echo "$out" | grep -E "^(VIOLATION|tmsa:)" | sed "s#$D/repo/##g; s#$D/verif#<scratch>#g" | cut -c1-${CUT:-330}
[ $rc -eq 1 ] && echo "DETECTED" || echo "MISSED rc=$rc"
