# helper: exec(open("/verif/tools/addexpl.py").read()); add(pid, rules, text); save()
import re,sys,json
p=open('/verif/tmsa/props.go').read()
def add(pid, rules, text):
    global p
    i=p.index('ID: "%s"'%pid)
    e=p.index('",\n\t\tRules:',i)
    if text and text.strip() not in p[i:e]:
        p=p[:e]+' '+text.strip().replace('\\','\\\\').replace('"','\\"')+p[e:]
    j=p.index('Rules:',i)
    k=p.index('{',j); m=p.index('}',k)
    cur=[r.strip().strip('"') for r in p[k+1:m].split('",') if r.strip()]
    cur=[c.strip('"') for c in cur]
    for r in rules:
        if r not in cur: cur.append(r)
    p=p[:k+1]+', '.join('"%s"'%c for c in cur)+p[m:]

def save():
    open('/verif/tmsa/props.go','w').write(p)
