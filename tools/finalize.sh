#!/bin/bash
# Regenerates every evidence file with the thorough tier on /repo's current tree, rebuilds
# DESIGN.md section A from the records, validates MANIFEST/evidence against the schemas.
# Run from /verif; takes about an hour with eight parallel jobs. Nothing here is registered in MANIFEST.json.
cd /verif || exit 1
python3 gen_manifest.py || exit 1
rc=0
: > /tmp/finalize.log
# longest first (number of registered changes), so that the last jobs to start are short ones
ids=$(python3 - <<'PY'
import json,glob,collections
cnt=collections.Counter()
for f in glob.glob('seeded/*/meta.json'):
    db=json.load(open(f)).get('detected_by') or {}
    for p in db: cnt[p]+=1
ids=[c['property_id'] for c in json.load(open('MANIFEST.json'))['checks']]
print(' '.join(sorted(ids,key=lambda i:-cnt[i])))
PY
)
./check.sh C01 quick > /dev/null 2>&1   # builds bin/tmsa once, before the parallel runs
one() {
  id=$1
  ./check.sh $id thorough > /tmp/finalize_$id.log 2>&1; r=$?
  echo "$id rc=$r $(grep -c '^KNOWN-FINDING' /tmp/finalize_$id.log) known, $(grep -c '^VIOLATION' /tmp/finalize_$id.log) violations, $(grep -o 'thorough: .*' /tmp/finalize_$id.log | head -1)" >> /tmp/finalize.log
  return $r
}
export -f one
# eight properties at a time (each run applies its registered changes to scratch copies one by one)
printf '%s\n' $ids | xargs -P ${FINALIZE_JOBS:-8} -I{} bash -c 'one {}' || rc=1
sort -o /tmp/finalize.log /tmp/finalize.log; cat /tmp/finalize.log
grep -qv "rc=0" /tmp/finalize.log && rc=1
python3 tools/splice_design.py
python3-vt - <<'PY'
import json,jsonschema,glob
m=json.load(open('/verif/MANIFEST.json')); jsonschema.validate(m,json.load(open('/root/.vp/MANIFEST.schema.json')))
s=json.load(open('/root/.vp/EVIDENCE.schema.json'))
n=0
for f in glob.glob('/verif/evidence/C*.json'):
    if 'violation' in f: continue
    jsonschema.validate(json.load(open(f)),s); n+=1
print('schemas ok: manifest +',n,'evidence files')
PY
echo "finalize rc=$rc" | tee -a /tmp/finalize.log
