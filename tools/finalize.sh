#!/bin/bash
# Regenerates every evidence file with the thorough tier on /repo's current tree, rebuilds
# DESIGN.md section A from the records, validates MANIFEST/evidence against the schemas.
# Run from /verif; takes about 90 minutes. Nothing here is registered in MANIFEST.json.
cd /verif || exit 1
python3 gen_manifest.py || exit 1
rc=0
: > /tmp/finalize.log
for id in $(python3 -c "import json;print(' '.join(c['property_id'] for c in json.load(open('MANIFEST.json'))['checks']))"); do
  ./check.sh $id thorough > /tmp/finalize_$id.log 2>&1; r=$?
  echo "$id rc=$r $(grep -c '^KNOWN-FINDING' /tmp/finalize_$id.log) known, $(grep -c '^VIOLATION' /tmp/finalize_$id.log) violations, $(grep -o 'thorough: .*' /tmp/finalize_$id.log | head -1)" | tee -a /tmp/finalize.log
  [ $r -ne 0 ] && rc=1
done
python3 tools/splice_design.py
python3-vt - <<'PY'
import json,jsonschema,glob
m=json.load(open('/verif/MANIFEST.json')); jsonschema.validate(m,json.load(open('/root/.vp/MANIFEST.schema.json')))
s=json.load(open('/root/.vp/EVIDENCE.schema.json'))
n=0
for f in glob.glob('/verif/evidence/C*.json'):
    if 'violation' in f: continue
    jsonschema.validate(json.load(open(f)),s); n+=1
print('schemas ok: manifest +',n,'evidence files')
PY
echo "finalize rc=$rc" | tee -a /tmp/finalize.log
