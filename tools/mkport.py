#!/usr/bin/env python3
"""mkport.py <name> <props,comma> <what> -- reads (file, old, new) triples as python literal from
stdin, applies them to a scratch copy of /repo and writes mutants/<name>.patch + index entry."""
import sys,os,subprocess,tempfile,shutil,json,ast
name,props,what=sys.argv[1],sys.argv[2].split(','),sys.argv[3]
edits=ast.literal_eval(sys.stdin.read())
tmp=tempfile.mkdtemp(prefix='port-')
try:
    subprocess.run(['rsync','-a','--exclude','.git','/repo/',tmp+'/b/'],check=True)
    out=''
    for f,old,new in edits:
        p=open(tmp+'/b/'+f).read()
        assert old in p,(f,old)
        open(tmp+'/b/'+f,'w').write(p.replace(old,new))
    files=sorted(set(f for f,_,_ in edits))
    for f in files:
        r=subprocess.run(['diff','-u','--label','a/'+f,'--label','b/'+f,'/repo/'+f,tmp+'/b/'+f],capture_output=True,text=True)
        out+='diff --git a/%s b/%s\n'%(f,f)+r.stdout
    open('/verif/mutants/%s.patch'%name,'w').write(out)
    p='/verif/mutants/index.json'
    d=json.load(open(p))
    d['mutants']=[m for m in d['mutants'] if m['name']!=name]
    d['mutants'].append({"name":name,"patch":name+".patch","props":props,"what":what})
    json.dump(d,open(p,'w'),indent=1)
    print(out[:600])
finally:
    shutil.rmtree(tmp,ignore_errors=True)
