#!/usr/bin/env python3
"""Prints the tables of DESIGN.md section A from the machine's own records: evidence/*.json
(rules and instance counts), known_findings.json (dispositions) and seeded/*/meta.json."""
import json,glob,os,re,subprocess
os.chdir('/verif')
print("#### A.2 table\n")
print("| id | rules run and instances on the current tree | obligations |")
print("|----|----------------------------------------------|-------------|")
for f in sorted(glob.glob('evidence/C*.json')):
    if 'violation' in f: continue
    e=json.load(open(f)); cov=e['coverage']
    ipr=cov['instances_per_rule']
    rules=', '.join('%s %d'%(r,ipr[r]) for r in sorted(ipr))
    print("| %s | %s | %d |"%(e['property_id'],rules,cov['obligations']))
print("\n#### A.3 table\n")
d=json.load(open('known_findings.json'))
print("| property | rule | /repo commit | what failed |")
print("|----------|------|--------------|-------------|")
seen=set()
for x in d['findings']:
    if not x.get('fixed'): continue
    k=(x.get('commit'),x['rule'])
    txt=x.get('what_failed','')
    txt=re.sub(r'^fixed: property=\S+ \S+ ','',txt)
    print("| %s | %s | %s | %s |"%(x['property'],x['rule'],x.get('commit','?'),txt.replace('|','\\|')))
print("\nOpen:\n")
for x in d['findings']:
    if x.get('fixed'): continue
    print("* %s %s `%s`: %s"%(x['property'],x['rule'],x['instance_key'],x.get('what_fails','')))
print("\n#### A.4 table\n")
print("| seed | files changed | reported by |")
print("|------|---------------|-------------|")
tot=det=na=0
for m in sorted(glob.glob('seeded/*/meta.json')):
    sd=os.path.dirname(m); name=os.path.basename(sd)
    meta=json.load(open(m))
    files=sorted(set(re.findall(r'^\+\+\+ b/(\S+)',open(sd+'/patch.diff').read(),re.M)))
    files=[f for f in files if not f.startswith('parsers/') or len(files)==1] or files
    if meta.get('patch_applies') is False:
        rep='patch no longer applies after a fix'+(': '+meta['note'] if meta.get('note') else '')
        na+=1
    elif meta.get('detecting_rules'):
        rr=meta['detecting_rules']
        rules=sorted(set(r for v in rr.values() for r in v))
        rep='**'+', '.join(rules)+'** via '+', '.join(sorted(rr))
        det+=1; tot+=1
    else:
        rep='not detected'; tot+=1
    print("| %s | %s | %s |"%(name,', '.join(files),rep))
print("\n%d of %d applicable seeds detected; %d no longer apply"%(det,tot,na))
