#!/usr/bin/env python3
"""Rebuilds section A of DESIGN.md from notes/design/sectionA_{head,mid,tail,end}.md and the
tables printed by tools/design_tables.py (which reads evidence/, known_findings.json, seeded/)."""
import subprocess,re,os
os.chdir('/verif')
d=open('DESIGN.md').read()
i=d.index('## A. As built (read this first)')
j=d.index('## 0. Overview')
t=subprocess.run(['python3','tools/design_tables.py'],capture_output=True,text=True).stdout
def part(name):
    a=t.index('#### '+name)
    rest=t[a:].split('\n',2)[2]
    b=rest.find('\n#### ')
    return rest if b<0 else rest[:b]
a2=part('A.2 table'); a3=part('A.3 table'); a4=part('A.4 table')
# A.3: split off the "Open:" list (the narrative already describes it)
a3=a3.split('\nOpen:\n')[0]
R=lambda n: open('notes/design/sectionA_%s.md'%n).read()
new=R('head')+a2+R('mid')+a3+R('tail')+a4+R('end')
open('DESIGN.md','w').write(d[:i]+new+d[j:])
print('section A rebuilt:',len(new.splitlines()),'lines')
