#!/usr/bin/env python3
"""Writes MANIFEST.json from the table below (kept in one place so the file is always valid)."""
import json, sys

CLAIMS = {
 # id: (technique, level text, level note, design ref)
 "C18": ("AST+types classification of every map iteration; SSA scan for global stores and nondeterminism sources",
         "Every source of unspecified order or run-to-run variation on the path from grammar text to written files is enumerated from the type-checked source and discharged (order-insensitive body, collect-then-sort, diagnostics only, audited). A structural necessary condition of byte-identical output, not byte identity itself.",
         "Trusts stdlib determinism (text/template, go/format, sort); comparators of sort.Slice assumed total; scope = import closure of gen and compiler.",
         "3.7, 4 (C18)"),
}

CLAIMS.update({
 "C25": ("abstract evaluation of Merge/Intersect dispatch against set identities; may-alias analysis of scratch buffers; dominance guards",
         "Decides that the Merge/Intersect dispatch implements union/intersection for every finite/co-finite operand combination (all 16 abstract states, checked on all subsets of a 3-element universe), that no set-algebra call reads an operand backed by its own scratch buffer, that sparse.Union only returns un-cloned storage once it has left the scratch array, and that complement-on-cycle errors are raised exactly under op==complement and onStack. Necessary conditions; the merge loops and the fixpoint are not decided.",
         "Helpers combine/intersect/subtract are taken at their documented meaning; alias analysis is field-based and flow-insensitive across functions.",
         "3.2, 3.3, 4 (C25)"),
 "C15": ("SSA pattern/dominance rules over ResolveSets work-list cases; recursion-with-visited-set check; may-alias analysis",
         "Decides that each of the any/first/last/precede/follow cases instantiates the right sets in the right direction with the right nullable polarity and fall-through guard, that all recursions over (cyclic) TokenSet values carry a visited set, and the set-closure obligations of C25. Necessary conditions of exact token sets, not the fixpoint itself.",
         "Nullable() and rule extraction are trusted; cyclic TokenSet values arise only through named sets.",
         "3.3, 3.4, 4 (C15)"),
})

CLAIMS.update({
 "C05": ("SSA path/dominance guards in allocator.place, value-class check of row stores, sentinel affine form, call-order and guard checks in lalr.Compile",
         "Decides necessary conditions of decode equivalence of the displacement encoding: no two rows can obtain the same base on any path of allocator.place, cached bases are reused only after bounds and cell comparison, stored cell values belong to the documented classes, the defaultReduce sentinel cannot collide with a shift/error/rule code and only sentinel cells are substituted, Optimize runs last and never on tables with deep-lookahead pointers.",
         "Row packing search itself (first-fit) and pickDefault are not examined; class table taken from lalr/optimize.go comments confirmed against the writers.",
         "3.1, 3.5, 4 (C05)"),
 "C06": ("field-coverage and def-use rules over lalr/minimize.go; call-order check",
         "Decides that minimize can know the entry states, that the rule-class key contains every component the property lists (with the length the parser pops), that every state-numbered table is remapped and that the refinement signature has the Moore form. Necessary conditions of behaviour preservation; equivalence on all inputs is not decided.",
         "Entry states are 0..len(Inputs)-1 (computeStates) and generated parsers start at the input index (templates).",
         "3.5, 4 (C06)"),
})

CLAIMS.update({
 "C04": ("decision-table extraction by finite abstract evaluation of resolvePrec/ruleAction over go/ssa; dominance/interval guards",
         "The compile-time precedence choice is a finite table: the check extracts it from the current code for every abstract input (presence of precedence on either side, order of groups, associativity; prior action class x resolution) and compares it with the documented table, plus the last-terminal fallback guard, the nonassoc re-encoding order, the group numbering and the directive mapping. This decides the compile-time clause of the property; the run-time effect depends on C01.",
         "Abstract domain: comparison-only ordinals for group indices, enum constants read from the type-checked package; map lookups and field loads are named by access path.",
         "3.2, 4 (C04)"),
 "C03": ("dominance guards on the conflict counters; decision-table extraction of reportConflicts; may-alias analysis of lookahead-set storage",
         "Decides only the last clause (error iff counts differ from %expect, exact per-conflict accounting by kind) and the storage discipline of lookahead sets. The LALR(1) construction itself is algorithmic and not decided.",
         "closure/lookback/follow computation trusted as is",
         "3.2, 4 (C03)"),
})

CLAIMS.update({
 "C24": ("constant/interval agreement between Pack's guards, its bit packing and Scan's decoding, extracted from SSA; scan-mode agreement of Tables.ScanBytes with the parameter the patterns were parsed with",
         "Decides that every value Pack stores fits the bit field it is shifted into for every number of states/actions Pack accepts, that Scan decodes with the inverse constants, that the ASCII guard agrees with the byte split, that tables the simple decode cannot represent (checkpoints, several start states) are rejected, and that the package keeps no state between calls. Necessary conditions of scanner/table agreement.",
         "lex.Tables layout (Dfa row-major by NumSymbols, symbol 0 = end of input) as documented in lex/lex.go.",
         "3.5, 3.6, 4 (C24)"),
})

CLAIMS.update({
 "C09": ("SSA guard/dominance and key-coverage rules over lex.generator.generate and lex.Tables.Scan (cell-class codec)",
         "Decides that the accept choice prefers strictly higher precedence and reports ties, that checkpoints are keyed by (target state, accepted action), and that writer and reader of the DFA cell classes agree, including the end-of-input transition and the fallback to the last accepted position. Necessary conditions of longest match with priority; the automaton construction is not decided.",
         "Cell classes as documented in lex/lex.go (state >= 0, checkpoint in (actionStart,-1], accept <= actionStart).",
         "3.1, 3.2, 4 (C09)"),
 "C10": ("interval abstract evaluation of digit helpers; loop trip-count/guard analysis; dominance guards; decision-table extraction",
         "Decides that hexval/octval have exactly the documented value ranges, that no escape accumulator can wrap, that fold tables are used only when folding, that inverted ranges cannot be inserted, that \\P{^X} toggles, that the fold orbit is fully visited and that byte-mode non-ASCII runes are not folded. Necessary conditions; the general denotation of patterns is not decided.",
         "unicode tables and SimpleFold are trusted.",
         "3.5, 3.6, 4 (C10)"),
})

CLAIMS.update({
 "C29": ("SSA rules on the committed generated parsers and the hand-written js parse loop: poll-in-shift-loop, mask form/agreement, error-flow slice to returns",
         "Decides that every shift loop polls the context with a bounded period through a mask test on the shared counter, and that no error that can be ctx.Err() is dropped between a lookahead and Parse*'s result. Necessary conditions of the property for the shipped parsers (generated sources are sources: a template change must be reflected in them for the pinned TestGenerate to pass).",
         "Template branches not instantiated by a shipped grammar are not covered by this rule.",
         "3.9, 4 (C29)"),
})

CLAIMS.update({
 "C12": ("SSA dominance/affine-form rules on every generated Lexer and the hand-written lexer actions",
         "Decides forced progress on the no-match path, bounds guards on every source read and cursor advance, and the agreement of every line/lineOffset update with 'offset of the first byte of the current line' including both directions of rewind. Necessary conditions of progress, in-range tokens and correct line/column; tiling is not decided.",
         "Lexer invariant scanOffset = offset + width(ch) (established by the same advance code the rule inspects).",
         "3.9, 4 (C12)"),
 "C11": ("unit/multiplier agreement between generator-side and lexer-side keyword hashing; plus the C12/C09 lexer rules",
         "Decides that keyword recognition hashes the same units with the same multiplier on both sides (rune mode; the bytes-mode disagreement is a recorded known finding), and the position/line/column and table-codec conditions shared with C12 and C09. Necessary conditions only.",
         "Template branches for scanBytes and large Unicode maps are not instantiated by shipped lexers.",
         "3.9, 4 (C11)"),
})

CLAIMS.update({
 "C22": ("call-graph enumeration of exit/panic sites against an audited table; path-based stage gating; plus CYCLE/ESCAPE/CURSOR/UNITS rules",
         "Decides that no new process-exit or panic site became reachable from compiler.Compile, that a failed pipeline stage stops the pipeline, that recursion over cyclic sets is guarded, that the grammar lexer cannot index or advance past the end of the text, and that diagnostic columns stay in byte units. Necessary conditions of crash freedom; arbitrary index/nil panics on malformed models are not decided.",
         "CHA call graph (VTA in the thorough tier), restricted to the import closure of package compiler; audit justifications are human-written invariants, several of them backed by other rules of this framework.",
         "3.8, 4 (C22)"),
})

CLAIMS.update({
 "C23": ("SSA leaf-discipline rule on Position.Character, dominance guards on client-supplied indices, go-statement scan and def-use checks of the change handlers",
         "Decides that outbound positions are built only from UTF-16 unit counts, that the inbound conversion handles surrogate pairs, that client arrays are length-checked before indexing, that the server has no concurrency of its own and publishes each change's own version after storing the document, that the serialising handler chain is installed, and that diagnostic ranges are clamped to one line. Necessary conditions; transport and semantic correctness of definitions are not decided.",
         "go.lsp.dev handler chain semantics (reply after return) read from the vendored sources.",
         "3.11, 4 (C23)"),
})

CLAIMS.update({
 "C01": ("codec rules on table readers in generated parsers (bounds/class guards), entry-point check, plus the writer-side rules of C04/C05/C06",
         "Decides that readers decode each table cell class under the test of its class with bounds-guarded packed-table reads, that entry points start at their input's state, and that the writers (populateTables, minimize, Optimize) keep the encodings consistent. Necessary conditions of language equivalence; the LALR construction itself is not decided.",
         "Generated sources are sources (pinned TestGenerate ties them to the templates).",
         "3.1, 3.9, 4 (C01)"),
 "C02": ("AST/constant evaluation of every applyRule case against tmRuleLen; marker-transparency rules",
         "Decides that every listener range emitted in a rule's case lies inside that rule's right-hand side and is non-empty, that markers never count as or hide symbols, and that trailing empty symbols are fully trimmed. Necessary conditions only.",
         "tmRuleLen/tmRuleSymbol/tmNonterminals literals of the same package.",
         "3.9, 4 (C02)"),
 "C16": ("STACKIDX plus def-use rules on SymRefCount and ActionVars.resolve",
         "Decides that emitted $-references address slots of their own rule, that the depth they are computed from skips markers, and that a resolved reference's position and index belong together. Necessary conditions only.",
         "",
         "3.9, 4 (C16)"),
 "C19": ("loop-variant and guard rules on recoverFromError/skipBrokenCode/parse; packed-table bounds",
         "Decides termination-relevant shape of the recovery search (shrinking recovery set, EOI exit, advancing skip loop), the per-parse reset of the suppression counter, and panic-freedom of table probes during recovery. Necessary conditions only.",
         "",
         "3.9, 4 (C19)"),
 "C20": ("ordering rule flush-after-extend, loop-shape rule for trimming, STACKIDX",
         "Decides two orderings that nesting depends on (error node flushed after its range is final; all trailing empties trimmed) and non-empty in-rule ranges. Necessary conditions only; the tree builder is not examined.",
         "",
         "3.9, 4 (C20)"),
})

CLAIMS.update({
 "C07": ("payload-agreement rule over all writers/readers of Lalr pointers; ordering and monotone-flag rules in the trie builder and resolveWithLookahead",
         "Decides that the -3-offset / -action-3 codec is used consistently by every writer and reader, that minimized trie nodes are keyed by assigned ids, that a conflict is resolved only if all of its terminals were, and that the used depth is exported. Necessary conditions; which rule a lookahead string selects is not decided.",
         "",
         "3.1, 4 (C07)"),
 "C08": ("template-tree analysis of the decision-list emitters; AST sibling comparison of the two emitted copies; shift-width rule; error-flow rule",
         "Decides that both emitted copies of every decision list apply the predicate polarity in every option variant of the template and agree with each other in the committed parsers, that the memo key cannot collide between predicates, and that lookahead errors propagate. The planner that orders predicates is algorithmic and not decided.",
         "",
         "3.9, 3.10, 4 (C08)"),
})

CLAIMS.update({
 "C17": ("template-tree analysis (text/template/parse): presence-condition guards, cross-template threshold agreement, name/function resolution; SSA error-guard rule on gen.Generate",
         "Decides, on the template trees themselves and therefore also for option branches no shipped grammar instantiates, that conditionally generated identifiers are referenced only under implying guards, that paired thresholds agree, that every template/function name resolves, and that generation errors are returned. One genuine defect (tokenStream without eventBased) is a recorded known finding. Necessary conditions of 'builds'; full type-correctness of every option combination is not decided.",
         "Implication table for .Parser.Types (each entry justified by an assignment in compiler/).",
         "3.10, 4 (C17)"),
})

CLAIMS.update({
 "C21": ("go/types.Implements over every accessor of the generated typed ASTs; factory exhaustiveness; template scoping rule",
         "A type-level argument for the shipped grammars (js, tm): every accessor's unchecked assertion is satisfied by every node type its selector admits and by NilNode, wrappers match single-type selectors, and the factory covers every node type. Plus one template scoping condition. Other grammars and child coverage are not decided.",
         "Selectors and categories are read from the generated selector package and category lists.",
         "3.9, 4 (C21)"),
 "C30": ("template-tree rules on bison.go.tmpl and def-use rules on its Go helpers",
         "Decides that the export prints rules and precedences from the very lists the tables were built from, names symbols by identity, and special-cases only lookahead rules as bare %empty. Necessary conditions only.",
         "",
         "3.5, 3.12, 4 (C30)"),
 "C28": ("dominance rule on identifier registration sites; guard rule in ident.Produce",
         "Decides that every symbol creation site checks, reports and registers its identifier, and that the leading-digit guard looks at the emitted text. Validity/non-emptiness of identifiers in general is a string computation and is not decided.",
         "",
         "3.12, 4 (C28)"),
 "C13": ("decision-table extraction of (*Expr).Equal by abstract evaluation per expression kind",
         "Decides only that Equal, which gates the reuse of extracted nonterminals, distinguishes expressions that differ in any component. The expansion rules themselves are not decided.",
         "",
         "3.2, 4 (C13)"),
 "C14": ("decision-table extraction of the predicate evaluator; escape/cycle/sharing rules on the instantiation code",
         "Decides the boolean semantics of conditional alternatives and the storage/termination discipline of the instantiation passes. Argument propagation is not decided.",
         "",
         "3.2, 3.3, 4 (C14)"),
})

# technique additions of the second building round (rule names as in props.go / DESIGN.md A.2)
EXTRA = {
 "C01": "fresh-backing-array analysis of struct copies whose slice fields are written in place; typestate/dominance analysis of the lookahead token in every parse(); reset and per-item dataflow rules; final-state guard of minimize",
 "C02": "floor of the trailing-empty trimming loops; typestate analysis of p.next positions; audited field-role table for syntax.Input flags; equality of merged list expressions including the node type of nested arrows",
 "C03": "decision table of conflictBuilder.hasConflict; min-update idiom check of the SCC pass; sentinel-index guards; planner scenarios of ruleAction; decision table of ambiguity.add",
 "C04": "all-pairs-store path check of Optimize rows; operand-order check of compiler.or; decision table of ambiguity.add (20 pairs of stored and new answer)",
 "C05": "scratch-histogram reset analysis; loop-bound check of the bit-set scans; option-key to field map; same-name plumbing of lalr.Options; default-table fallback at every decode site of the generated parsers; reference-side end-of-block check of DefaultEnc.gotoState; substitution of unfilled cells independent of the chosen default",
 "C06": "trailing-nullable component of the rule-class key; cast-action key coverage; seen-set de-duplication of remapped marker states; final-state guard; lock-step of the two rule copies; injectivity of lookahead-row signature elements; memo-key agreement with generated lookahead()",
 "C07": "lost-write analysis of range copies (trie minimisation); phase coverage of terminal-transition follow sets; exhaustion of collecting loops; who-may-call rule for Lexer.Next; propagation of unresolved trie nodes; loop-carried scratch copy of deep lookahead; scan-termination sibling check of lookahead rows",
 "C08": "decision-table extraction of pickLookahead (120 polarity sequences) and of ruleAction's planner branch; memo-key agreement; per-item re-initialisation of the negation flag in generateTables",
 "C09": "cursor-minus-constant clause on the size flow of Tables.Scan (rune mode advances by a variable width); scan-mode agreement of Tables.ScanBytes with the parameter the patterns were parsed with",
 "C10": "finite-state exploration of in-place range filters (len(out)-i); call-order of class assembly; Offset/Column lock-step; field coverage of rebuilt CharsetOptions; companion-table agreement of case folding for named Unicode classes",
 "C11": "reserved-token constant agreement of canInlineRules; stale-offset check of rewind; reader/writer agreement of the compressed rune map; checkpoint reset on every edge into the scan loop; declaration-implies-maintenance formulas for line/lineOffset in the lexer template; end-of-input cycle check of the generator; single-line token comments; decision table of rune folding; lost-write analysis of range copies in the lexer compiler; companion-table agreement of case folding for named Unicode classes",
 "C12": "cursor step discipline; reader/writer agreement of the compressed rune map; checkpoint reset; declaration-implies-maintenance formulas for line/lineOffset; end-of-input cycle check of the generator",
 "C13": "terminal-boundary comparison audit; separator placement under the recursion flag; path guard of dropped Empty children; alias wrapping of named set slots; once-only renumbering of shared token-set nodes",
 "C14": "scratch bit-set reset scopes; name-based provenance of Arg.TakeFrom; path guard of dropped Empty children; terminal-boundary comparison audit (48 sites); wrapper order of convertRules; escape analysis through callees that retain slices; renumbering coverage",
 "C15": "all-paths reachability of the set-contribution test; first-match shape of the input seeding loop; copy-source guard of named-set slots",
 "C16": "marker-free remap counter; Pos coverage of extracted references; sharing-key and renumbering field coverage; comma-ok discipline of ActionVars.Remap; name propagation out of nested groups; top-level invariant of rhsRule.top (stores are nil, tested with isTopLevel, or another rule's .top); free-key test of map copies under a rewritten (suffix-stripped) key",
 "C17": "free-name guard of the synthetic TokenSet category; once-per-key emission of Go declarations; interning-pair rule; decision-table agreement of NeedsSession with the template's session struct; all-paths enumeration of file selection against template imports; call/definition arity agreement on template trees; template guard-formula rules for struct fields, node type identifiers and predicate chains (all truth assignments of the option atoms); guard-formula agreement of every `ctx, ` argument with the callee's parameter and the enclosing function's scope; separator-in-slice condition of the import alias elision; identifier registration discipline of explicit token IDs",
 "C18": "global map aliased through struct fields; mutating methods of sync containers held in package-level variables; ordered-comparison requirement for comparators that discharge a map iteration",
 "C19": "constant propagation of stream.recoveryMode; histogram reset range; end-of-input guard of the token-skipping loop; nil-stack guard of the js token stream; non-emptiness form of the IsRecovering flag",
 "C20": "must-write analysis of Init (and of parse() for Parser) for every run-state field of Lexer/Parser/TokenStream; direction of the start-of-range update in recoverFromError",
 "C21": "fresh-backing-array analysis of copied field records; child test of addNode; save/restore dominance; sibling check of the two Tarjan implementations; unconditional rule-class key components; compare-and-store agreement of min updates in syntax; residue-with-quotient rule for the bit test of generated selectors; equality of merged list expressions including arrow types; root node adopts every reported node",
 "C22": "lookup-index guard; in-progress memo reachability and mark-before-descend dominance; valid-anchor guard for optional nodes; Origin coverage of every syntax.Expr literal; next-element bound of range loops; sentinel inside the follow-set universe",
 "C23": "source-cursor bounds of the grammar lexer; sentinel-index guards in verbose conflict explanations; memoised recursions of the compiler; no success return of a change handler bypasses typecheck; provenance of la-set elements as possibly-sentinel indices",
 "C25": "in-place merge exploration; min-update idiom and Tarjan sibling checks",
 "C28": "explicit-id path check; non-empty return analysis of ident.Produce; identifier-level freshness of extracted mid-rule nonterminals; non-empty-sub-slice condition of the name tested by the fallback",
 "C29": "must-return of parser errors in ast.Parse; monotonicity of the poll counter; identity of the error handler handed to the parser; use-only-in-return of ctx.Err(); check-before-use of results that come with a cancellation error; error-before-next-predicate on the template's lookahead chains",
 "C30": "three-copy agreement of %prec; Reference literals carry Model; kinds reaching ExprString; token-ID vs nonterminal-name namespace check",
}

CLAIMS.update({
 "C26": ("dominance/loop-nesting/loop-range/operand-role rules over util/graph: min-update idiom, sibling check of the two Tarjan implementations, SCC stack pairing, pivot position of Warshall's loops, matrix cell codec, edge direction of Transpose, in-progress sentinel of LongestPath and descent into every successor",
         "Decides structural necessary conditions of the four graph routines: every low-link update of Tarjan is a true running minimum and the post-descent update propagates lowLink[child]; a component is emitted exactly under lowLink[v]==index[v] and its members leave onStack before the stack is cut; Closure's intermediate vertex is the outermost loop variable and the update joins the two tested edges; AddEdge/HasEdge/Graph agree on the cell i*n+e; Transpose sizes and fills the list of the edge's target with its source; LongestPath marks in-progress vertices -1, flags a cycle exactly on meeting one and returns nil under the flag. It does not decide that the computed components, closure or path are correct on every graph.",
         "Graphs are runtime values; order of components (reverse topological) and maximality of the longest path are algorithmic and not examined.",
         "A.2 (C26)"),
})

CLAIMS.update({
 "C27": ("pass-through of the operands of LineDiff in its non-test callers; cursor provenance of hunk origins; strictness of the furthest-reaching selection in both Myers searches; arithmetic consistency of run abbreviation; taint of the diff text into format strings; dominance guard on the equality shortcut; governing-condition table of the hunk size counters; field lock-step of chunk.merge; AST mirror comparison of the edit-script base cases; finite-state exploration of the in-place chunk merge",
         "Decides structural necessary conditions of the line diff: equal texts return the empty diff before anything is computed; hunk.add counts context and removed lines on the left and context and added lines on the right of the @@ header; chunk.merge adds del, ins and eq each; the len(a)==1 and len(b)==1 base cases of the recursion are mirror images; the in-place merge of chunks never overwrites unread chunks. It does not decide minimality of the script (Myers' middle snake), that unequal texts render a non-empty diff, or that hunks apply.",
         "Minimality and hunk applicability are numerical/round-trip properties of runtime data and stay undecided; util/diff is used by tests only.",
         "A.2 (C27), 6"),
})

NA = {
 "C26_unused": "(now claimed) graph algorithms (SCC order, closure, transposition, longest path) are statements about values computed by loops over runtime graphs; util/graph has no encoding, guard, pairing or ownership clause whose violation is visible in the shape of the code — no sound static necessary condition within reach",
 "C27_unused": "(now claimed) minimality of a Myers edit script and applicability of rendered hunks are numerical/round-trip properties of runtime data; no structural clause to check statically",
}

ALL = ["C%02d" % i for i in range(1, 31)]

def main():
    checks = []
    for pid in ALL:
        if pid not in CLAIMS:
            continue
        tech, text, note, ref = CLAIMS[pid]
        checks.append({
            "property_id": pid,
            "quick_cmd": "./check.sh %s quick" % pid,
            "thorough_cmd": "./check.sh %s thorough" % pid,
            "evidence_file": "/verif/evidence/%s.json" % pid,
            "replay_cmd_template": "./check.sh %s quick  # re-evaluates every instance; the violation file {path} names rule, instance key and position" % pid,
            "engine": "tmsa",
            "level_claimed": {"category": "other", "text": text, "design_ref": "DESIGN.md " + ref},
            "level_note": note,
            "technique": "static analysis: " + tech + ("; " + EXTRA[pid] if pid in EXTRA else "") + " (rule list and per-rule statement: evidence coverage.explanation)",
        })
    na = []
    for pid in ALL:
        if pid in CLAIMS:
            continue
        na.append({"property_id": pid, "reason": NA.get(pid, "structural clause identified in DESIGN.md, checker not built yet; not claimed until it exists")})
    m = {
        "version": 1,
        "setup_cmd": "cd /verif/tmsa && . ./env.sh && mkdir -p ../bin && go build -o ../bin/tmsa .",
        "hooks": {
            "guard": "verif",
            "enable": "no hooks: nothing in /repo is executed or instrumented; checks read /repo's current source with go/packages (build tag 'verif' is reserved and unused)",
            "baseline_off_cmd": "cd /repo && GOFLAGS=-mod=mod go test -vet=off -count=1 -timeout 25m ./...",
            "source_commits": [],
            "add_only": True,
        },
        "engines": [{
            "name": "tmsa", "path": "/verif/tmsa",
            "serves_properties": sorted(CLAIMS),
            "kind_free_text": "repository-specific static analyser (go/packages, go/types, go/ssa, call graphs, text/template/parse) with per-property rule tables; built with go1.26.8 + x/tools v0.50.0, GOTOOLCHAIN=local",
        }],
        "checks": checks,
        "not_applicable": na,
        "notes": "All claims are level 'other': each check decides named structural necessary conditions of its property from source (see DESIGN.md); none decides behaviour. VIOLATION lines carry kind=violation|undecided|unaudited|anchor-lost|count-dropped.",
    }
    json.dump(m, open("/verif/MANIFEST.json", "w"), indent=1)
    print("claimed", len(checks), "not applicable", len(na))

main()
